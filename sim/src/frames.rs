//! Constructive frame builders (the model knows what it submitted) and the
//! independent re-framing definitions (Annex B splitter, ADTS slicer) taken
//! from the property text, not from the library's iterators.

use crate::case::{ACodec, VCodec};
use crate::rng::Rng;

// ---------------------------------------------------------------- independent definitions

/// Position and length of the first 3- or 4-byte start code at or after `from`.
fn next_start_code(d: &[u8], from: usize) -> Option<(usize, usize)> {
    let mut i = from;
    while i + 3 <= d.len() {
        if d[i] == 0 && d[i + 1] == 0 {
            if d[i + 2] == 1 {
                return Some((i, 3));
            }
            if d[i + 2] == 0 && i + 4 <= d.len() && d[i + 3] == 1 {
                return Some((i, 4));
            }
        }
        i += 1;
    }
    None
}

/// The non-empty byte runs that follow each start code, up to the next start
/// code or the end of input; the whole input as one unit when that yields none.
pub fn split_annexb(d: &[u8]) -> Vec<&[u8]> {
    let mut out = Vec::new();
    let mut pos = 0;
    while let Some((p, l)) = next_start_code(d, pos) {
        let start = p + l;
        let end = match next_start_code(d, start) {
            Some((q, _)) => q,
            None => d.len(),
        };
        if end > start {
            out.push(&d[start..end]);
        }
        pos = end;
        if pos >= d.len() {
            break;
        }
    }
    if out.is_empty() && !d.is_empty() {
        out.push(d);
    }
    out
}

/// Expected stored sample for an H.264/H.265 access unit.
pub fn expected_length_prefixed(d: &[u8]) -> Vec<u8> {
    let mut out = Vec::with_capacity(d.len() + 8);
    for u in split_annexb(d) {
        out.extend_from_slice(&(u.len() as u32).to_be_bytes());
        out.extend_from_slice(u);
    }
    out
}

/// Does the access unit contain any non-empty NAL unit after a start code?
pub fn annexb_has_units(d: &[u8]) -> bool {
    next_start_code(d, 0).is_some() && {
        // at least one non-empty run following a start code
        let mut pos = 0;
        let mut any = false;
        while let Some((p, l)) = next_start_code(d, pos) {
            let start = p + l;
            let end = next_start_code(d, start).map(|x| x.0).unwrap_or(d.len());
            if end > start {
                any = true;
                break;
            }
            pos = end;
            if pos >= d.len() {
                break;
            }
        }
        any
    }
}

/// NAL units strictly by start codes (no whole-input fallback).
pub fn annexb_units(d: &[u8]) -> Vec<&[u8]> {
    if annexb_has_units(d) {
        split_annexb(d)
    } else {
        Vec::new()
    }
}

#[derive(Clone, Copy, Debug, PartialEq, Eq)]
pub enum AdtsVerdict {
    /// structurally valid; stored sample is frame[hdr..len]
    Valid { hdr: usize, len: usize },
    Invalid,
}

/// ADTS structure per ISO/IEC 13818-7 / 14496-3 as far as the contract names it:
/// syncword, MPEG-4 id, layer 0, sampling index 0..=12, channel config 1..=7,
/// header length by protection flag, frame length within [header, buffer].
pub fn adts_check(f: &[u8]) -> AdtsVerdict {
    if f.len() < 7 {
        return AdtsVerdict::Invalid;
    }
    if f[0] != 0xff || f[1] & 0xf0 != 0xf0 {
        return AdtsVerdict::Invalid;
    }
    if f[1] & 0x08 != 0 || f[1] & 0x06 != 0 {
        return AdtsVerdict::Invalid;
    }
    let hdr = if f[1] & 1 == 1 { 7 } else { 9 };
    if f.len() < hdr {
        return AdtsVerdict::Invalid;
    }
    let sfi = (f[2] >> 2) & 0x0f;
    if sfi > 12 {
        return AdtsVerdict::Invalid;
    }
    let ch = ((f[2] & 1) << 2) | (f[3] >> 6);
    if ch == 0 {
        return AdtsVerdict::Invalid;
    }
    let len = (((f[3] & 3) as usize) << 11) | ((f[4] as usize) << 3) | ((f[5] as usize) >> 5);
    if len < hdr || len > f.len() {
        return AdtsVerdict::Invalid;
    }
    AdtsVerdict::Valid { hdr, len }
}

#[derive(Clone, Copy, Debug, PartialEq, Eq)]
pub enum Tri {
    Yes,
    No,
    Unknown,
}

/// Opus packet structure (RFC 6716 §3): non-empty; code 3 needs a frame-count
/// byte with a non-zero count. `Unknown` where RFC validity and the library's
/// structural check may legitimately differ (total duration > 120 ms).
pub fn opus_check(p: &[u8]) -> Tri {
    if p.is_empty() {
        return Tri::No;
    }
    let code = p[0] & 3;
    if code != 3 {
        return Tri::Yes;
    }
    if p.len() < 2 {
        return Tri::No;
    }
    let count = (p[1] & 0x3f) as u32;
    if count == 0 {
        return Tri::No;
    }
    let config = p[0] >> 3;
    let dur = match config {
        0..=3 | 16..=19 => 480u32,
        4..=7 | 20..=23 => 960,
        8..=11 => 1920,
        12..=15 => 2880,
        24..=27 => 120,
        _ => 240,
    };
    if dur * count > 5760 {
        Tri::Unknown
    } else {
        Tri::Yes
    }
}

// ---------------------------------------------------------------- bit writer

pub struct BitW {
    pub out: Vec<u8>,
    acc: u8,
    n: u8,
}
impl BitW {
    pub fn new() -> Self {
        BitW { out: Vec::new(), acc: 0, n: 0 }
    }
    pub fn bit(&mut self, b: bool) {
        self.acc = (self.acc << 1) | (b as u8);
        self.n += 1;
        if self.n == 8 {
            self.out.push(self.acc);
            self.acc = 0;
            self.n = 0;
        }
    }
    pub fn bits(&mut self, v: u64, n: u32) {
        for i in (0..n).rev() {
            self.bit((v >> i) & 1 == 1);
        }
    }
    pub fn finish_trailing(mut self) -> Vec<u8> {
        // trailing_bits(): a one then zeros to the byte boundary
        self.bit(true);
        while self.n != 0 {
            self.bit(false);
        }
        self.out
    }
}

// ---------------------------------------------------------------- NAL construction

/// Body bytes that cannot create or extend a start code: no two consecutive
/// zeros, never ends in zero, never starts with zero.
fn clean_body(rng: &mut Rng, n: usize, stamp: u64) -> Vec<u8> {
    let mut v = Vec::with_capacity(n);
    let st = stamp.to_be_bytes();
    for i in 0..n {
        let mut b = if i < 8 { st[i] } else { (rng.next_u64() & 0xff) as u8 };
        let prev_zero = i > 0 && v[i - 1] == 0;
        if b == 0 && (prev_zero || i == 0 || i == n - 1) {
            b = 0x80 | (i as u8 & 0x7f) | 1;
        }
        v.push(b);
    }
    if n >= 14 && rng.chance(1, 6) {
        // an emulation-prevention sequence (00 00 03 xx) inside the unit: legal payload, not a start code
        let pos = rng.range(9, n as u64 - 5) as usize;
        if v[pos - 1] != 0 {
            v[pos] = 0;
            v[pos + 1] = 0;
            v[pos + 2] = 3;
            v[pos + 3] = *rng.pick(&[1u8, 2, 3, 0x80]);
        }
    }
    v
}

#[derive(Clone, Debug)]
pub struct BuiltFrame {
    pub data: Vec<u8>,
    /// what the file must contain for this frame if it is accepted
    pub stored: Vec<u8>,
    /// the frame carries the codec configuration needed for a first frame
    pub has_config: bool,
    /// an IDR/key picture is inside (what automatic key detection should say), if unambiguous
    pub is_key_picture: Option<bool>,
}

fn join_annexb(rng: &mut Rng, nals: &[Vec<u8>], decorate: bool) -> (Vec<u8>, Vec<u8>) {
    let mut data = Vec::new();
    let mut stored = Vec::new();
    if decorate && rng.chance(1, 6) {
        // leading garbage without start code; never ends in zero
        let n = rng.range(1, 5) as usize;
        for i in 0..n {
            let b = (rng.next_u64() & 0xff) as u8;
            data.push(if b == 0 || b == 1 { 0x55 + i as u8 } else { b });
        }
    }
    for (i, nal) in nals.iter().enumerate() {
        if decorate && rng.chance(1, 10) {
            // an empty unit: a start code directly followed by another start code
            if rng.bool() {
                data.extend_from_slice(&[0, 0, 1]);
            } else {
                data.extend_from_slice(&[0, 0, 0, 1]);
            }
        }
        if rng.bool() || !decorate {
            data.extend_from_slice(&[0, 0, 0, 1]);
        } else {
            data.extend_from_slice(&[0, 0, 1]);
        }
        data.extend_from_slice(nal);
        let is_last = i + 1 == nals.len();
        let mut unit = nal.clone();
        if is_last && decorate && rng.chance(1, 8) {
            // trailing zeros belong to the last unit by the definition
            let z = rng.range(1, 3) as usize;
            for _ in 0..z {
                data.push(0);
                unit.push(0);
            }
        } else if is_last && decorate && rng.chance(1, 12) {
            // a start code with nothing after it at the very end: an empty unit, not stored
            if rng.bool() {
                data.extend_from_slice(&[0, 0, 1]);
            } else {
                data.extend_from_slice(&[0, 0, 0, 1]);
            }
        }
        stored.extend_from_slice(&(unit.len() as u32).to_be_bytes());
        stored.extend_from_slice(&unit);
    }
    (data, stored)
}

#[derive(Clone, Copy, Debug, PartialEq, Eq)]
pub enum FrameShape {
    /// key picture with parameter sets
    KeyWithConfig,
    /// key picture without parameter sets
    KeyNoConfig,
    /// parameter sets but no key picture
    ConfigNoKey,
    /// ordinary delta frame
    Delta,
}

pub struct SizeClass;
impl SizeClass {
    /// `big_permille`: share (in 1/1000) of frames of 60..70 KiB (crossing the 64 KiB mark)
    pub fn draw(rng: &mut Rng, big_permille: u32) -> usize {
        Self::draw_ex(rng, big_permille, true)
    }

    /// `mib`: allow the rare frames of 128 KiB .. 4 MiB (not where a run re-executes its history per fault point)
    pub fn draw_ex(rng: &mut Rng, big_permille: u32, mib: bool) -> usize {
        if mib && big_permille > 0 && rng.chance(1, 3000) {
            // sizes around powers of two from 128 KiB to 4 MiB (buffer capacities, bypass thresholds);
            // the heavier weights sit at 1 MiB
            let e = *rng.pick(&[17u32, 18, 19, 20, 20, 20, 21, 22]);
            return (1usize << e) - 4 + rng.below(2000) as usize;
        }
        match rng.weighted(&[500, 350, 150 - big_permille.min(150), big_permille.min(150)]) {
            0 => rng.range(1, 16) as usize,
            1 => rng.range(17, 300) as usize,
            2 => rng.range(301, 3000) as usize,
            _ => rng.range(60_000, 70_000) as usize,
        }
    }
}

pub fn build_h26x(rng: &mut Rng, hevc: bool, shape: FrameShape, stamp: u64, payload: usize, decorate: bool) -> BuiltFrame {
    let mut nals: Vec<Vec<u8>> = Vec::new();
    let hdr = |t: u8, rng: &mut Rng| -> Vec<u8> {
        if hevc {
            vec![t << 1, 1 + (rng.below(3) as u8)]
        } else {
            let idc = (rng.range(1, 3) as u8) << 5;
            vec![idc | t]
        }
    };
    let mk = |t: u8, body: usize, rng: &mut Rng| -> Vec<u8> {
        let mut v = hdr(t, rng);
        v.extend(clean_body(rng, body.max(1), stamp));
        v
    };
    let has_config = matches!(shape, FrameShape::KeyWithConfig | FrameShape::ConfigNoKey);
    let has_key = matches!(shape, FrameShape::KeyWithConfig | FrameShape::KeyNoConfig);
    if decorate && rng.chance(1, 5) {
        // access unit delimiter
        nals.push(mk(if hevc { 35 } else { 9 }, 1, rng));
    }
    if has_config {
        let ps_len = |rng: &mut Rng| rng.range(3, 24) as usize;
        if hevc {
            let mut order = vec![32u8, 33, 34];
            if decorate && rng.chance(1, 4) {
                // any order
                let i = rng.usize(3);
                order.swap(0, i);
            }
            for t in order {
                let n = ps_len(rng).max(if t == 33 { 16 } else { 3 });
                nals.push(mk(t, n, rng));
            }
            if decorate && rng.chance(1, 5) {
                // a repeated, different SPS later (first one counts)
                let n = ps_len(rng);
                nals.push(mk(33, n, rng));
            }
        } else {
            let n = ps_len(rng);
            let first_sps = mk(7, n, rng);
            let n = ps_len(rng);
            let first_pps = mk(8, n, rng);
            if decorate && rng.chance(1, 5) {
                nals.push(first_pps);
                nals.push(first_sps);
            } else {
                nals.push(first_sps);
                nals.push(first_pps);
            }
            if decorate && rng.chance(1, 5) {
                let n = ps_len(rng);
                nals.push(mk(7, n, rng));
            }
            if decorate && rng.chance(1, 4) {
                // further, different picture parameter sets (streams with several PPS ids); the first one counts
                for _ in 0..rng.range(1, 3) {
                    let n = ps_len(rng);
                    nals.push(mk(8, n, rng));
                }
            }
        }
    }
    if decorate && rng.chance(1, 6) {
        // SEI
        nals.push(mk(if hevc { 39 } else { 6 }, rng.range(1, 20) as usize, rng));
    }
    let slices = if decorate && rng.chance(1, 6) { 2 } else { 1 };
    for s in 0..slices {
        let t = if has_key {
            if hevc {
                *rng.pick(&[19u8, 20])
            } else {
                5
            }
        } else if hevc {
            *rng.pick(&[0u8, 1])
        } else {
            1
        };
        if shape == FrameShape::ConfigNoKey && s > 0 {
            break;
        }
        if shape == FrameShape::ConfigNoKey {
            // parameter sets followed by a non-key slice
            nals.push(mk(if hevc { 1 } else { 1 }, payload / slices, rng));
        } else {
            nals.push(mk(t, payload / slices, rng));
        }
    }
    let (data, stored) = join_annexb(rng, &nals, decorate);
    BuiltFrame { data, stored, has_config, is_key_picture: Some(has_key) }
}

// ---------------------------------------------------------------- AV1

pub fn leb128(mut v: u64) -> Vec<u8> {
    let mut out = Vec::new();
    loop {
        let b = (v & 0x7f) as u8;
        v >>= 7;
        if v == 0 {
            out.push(b);
            break;
        }
        out.push(b | 0x80);
    }
    out
}

fn obu(rng: &mut Rng, typ: u8, payload: &[u8], with_size: bool, allow_ext: bool) -> Vec<u8> {
    let ext = allow_ext && rng.chance(1, 8);
    let mut v = vec![(typ << 3) | ((ext as u8) << 2) | ((with_size as u8) << 1)];
    if ext {
        v.push((rng.below(8) as u8) << 5 | (rng.below(4) as u8) << 3);
    }
    if with_size {
        v.extend(leb128(payload.len() as u64));
    }
    v.extend_from_slice(payload);
    v
}

/// Grammar-built sequence header payload (AV1 spec 5.5), all branches reachable.
pub fn av1_sequence_header_payload(rng: &mut Rng) -> Vec<u8> {
    av1_sequence_header_payload_ex(rng, false).0
}

/// `exotic`: also draw legal-but-extreme syntax element encodings (uvlc codes with 31..40 leading
/// zeros); the second result says whether a careful reader must still accept the header.
pub fn av1_sequence_header_payload_ex(rng: &mut Rng, exotic: bool) -> (Vec<u8>, bool) {
    let mut ordinary = true;
    let mut w = BitW::new();
    let profile = rng.below(3);
    w.bits(profile, 3);
    let reduced = rng.chance(1, 6);
    w.bit(reduced); // still_picture
    w.bit(reduced);
    if reduced {
        w.bits(rng.below(32), 5);
    } else {
        let timing = rng.chance(1, 3);
        w.bit(timing);
        let mut decoder_model = false;
        let mut bdl = 0u32;
        if timing {
            w.bits(rng.next_u64() & 0xffff_ffff, 32);
            w.bits(rng.next_u64() & 0xffff_ffff, 32);
            let eq = rng.bool();
            w.bit(eq);
            if eq {
                // uvlc: k leading zeros, a one, k bits (k >= 32 encodes 2^32-1 and carries no value bits in the
                // spec; readers differ, so such headers are not claimed to be acceptable)
                let k = if exotic && rng.chance(1, 2) { *rng.pick(&[30u32, 31, 32, 33, 40]) } else { rng.below(6) as u32 };
                if k >= 31 {
                    ordinary = false;
                }
                w.bits(0, k);
                w.bit(true);
                if k < 32 {
                    w.bits(rng.next_u64() & ((1u64 << k) - 1), k);
                } else {
                    w.bits(rng.next_u64() & 0xffff_ffff, 32);
                }
            }
            decoder_model = rng.bool();
            w.bit(decoder_model);
            if decoder_model {
                bdl = rng.below(32) as u32;
                w.bits(bdl as u64, 5);
                bdl += 1;
                w.bits(rng.next_u64() & 0xffff_ffff, 32);
                w.bits(rng.below(32), 5);
                w.bits(rng.below(32), 5);
            }
        } else {
            w.bit(false); // decoder_model_info_present_flag
        }
        let idd = rng.chance(1, 3);
        w.bit(idd);
        let ops = if rng.chance(1, 4) { rng.range(1, 4) } else { 0 };
        w.bits(ops, 5);
        for _ in 0..=ops {
            w.bits(rng.below(4096), 12);
            let lvl = rng.below(24);
            w.bits(lvl, 5);
            if lvl > 7 {
                w.bit(rng.bool());
            }
            if decoder_model {
                let p = rng.bool();
                w.bit(p);
                if p {
                    w.bits(rng.next_u64() & ((1u64 << bdl) - 1), bdl);
                    w.bits(rng.next_u64() & ((1u64 << bdl) - 1), bdl);
                    w.bit(rng.bool());
                }
            }
            if idd {
                let p = rng.bool();
                w.bit(p);
                if p {
                    w.bits(rng.below(16), 4);
                }
            }
        }
    }
    let wb = rng.range(1, 16) as u32;
    let hb = rng.range(1, 16) as u32;
    w.bits(wb as u64 - 1, 4);
    w.bits(hb as u64 - 1, 4);
    w.bits(rng.below(1 << wb), wb);
    w.bits(rng.below(1 << hb), hb);
    if !reduced {
        let fid = rng.chance(1, 4);
        w.bit(fid);
        if fid {
            w.bits(rng.below(16), 4);
            w.bits(rng.below(8), 3);
        }
    }
    w.bit(rng.bool());
    w.bit(rng.bool());
    w.bit(rng.bool());
    if !reduced {
        for _ in 0..4 {
            w.bit(rng.bool());
        }
        let oh = rng.bool();
        w.bit(oh);
        if oh {
            w.bit(rng.bool());
            w.bit(rng.bool());
        }
        let choose_sct = rng.bool();
        w.bit(choose_sct);
        let force_sct = if choose_sct {
            2
        } else {
            let f = rng.bool();
            w.bit(f);
            f as u8
        };
        if force_sct > 0 {
            let c = rng.bool();
            w.bit(c);
            if !c {
                w.bit(rng.bool());
            }
        }
        if oh {
            w.bits(rng.below(8), 3);
        }
    }
    w.bit(rng.bool());
    w.bit(rng.bool());
    w.bit(rng.bool());
    // color_config
    let high = rng.bool();
    w.bit(high);
    let mut twelve = false;
    if profile == 2 && high {
        twelve = rng.bool();
        w.bit(twelve);
    }
    let mono = if profile == 1 {
        false
    } else {
        let m = rng.chance(1, 4);
        w.bit(m);
        m
    };
    let cdp = rng.chance(1, 3);
    w.bit(cdp);
    let (cp, tc, mc) = if cdp {
        let srgb = rng.chance(1, 3) && !mono && (profile == 1 || (profile == 2 && twelve));
        let t = if srgb { (1u64, 13u64, 0u64) } else { (rng.range(1, 12), rng.range(1, 12), rng.range(1, 12)) };
        w.bits(t.0, 8);
        w.bits(t.1, 8);
        w.bits(t.2, 8);
        t
    } else {
        (2, 2, 2)
    };
    let (sx, sy);
    if mono {
        w.bit(rng.bool());
        sx = true;
        sy = true;
    } else if cp == 1 && tc == 13 && mc == 0 {
        sx = false;
        sy = false;
    } else {
        w.bit(rng.bool());
        if profile == 0 {
            sx = true;
            sy = true;
        } else if profile == 1 {
            sx = false;
            sy = false;
        } else if twelve {
            let x = rng.bool();
            w.bit(x);
            let y = if x {
                let y = rng.bool();
                w.bit(y);
                y
            } else {
                false
            };
            sx = x;
            sy = y;
        } else {
            sx = true;
            sy = false;
        }
        if sx && sy {
            w.bits(rng.below(4), 2);
        }
    }
    if !mono {
        w.bit(rng.bool());
    }
    w.bit(rng.bool()); // film_grain_params_present
    let mut out = w.finish_trailing();
    // trailing_bits() may span further zero bytes; one is added so that a reader that
    // consumes a few bits more than the syntax has never runs dry (keeps MustAccept honest)
    out.push(0x00);
    (out, ordinary)
}

pub fn build_av1(rng: &mut Rng, shape: FrameShape, stamp: u64, payload: usize, decorate: bool) -> BuiltFrame {
    let mut data = Vec::new();
    let has_config = matches!(shape, FrameShape::KeyWithConfig | FrameShape::ConfigNoKey);
    let has_key = matches!(shape, FrameShape::KeyWithConfig | FrameShape::KeyNoConfig);
    if !decorate || rng.chance(3, 4) {
        data.extend(obu(rng, 2, &[], true, false)); // temporal delimiter
    }
    if decorate && rng.chance(1, 8) {
        let n = rng.range(1, 9) as usize;
        let p = rng.bytes(n);
        data.extend(obu(rng, 15, &p, true, decorate)); // padding
    }
    let mut conforming = true;
    if has_config {
        let exotic = decorate && rng.chance(1, 25);
        let (p, ok) = av1_sequence_header_payload_ex(rng, exotic);
        conforming = ok;
        data.extend(obu(rng, 1, &p, true, decorate));
    }
    if decorate && rng.chance(1, 8) {
        let n = rng.range(1, 12) as usize;
        let p = rng.bytes(n);
        data.extend(obu(rng, 5, &p, true, decorate)); // metadata
    }
    // frame OBU: show_existing_frame=0, frame_type (2 bits), then stamp + noise
    let ft: u8 = if has_key { 0 } else { 1 };
    let mut p = vec![(ft << 5) | ((rng.below(32)) as u8)];
    p.extend_from_slice(&stamp.to_be_bytes());
    let extra = payload.saturating_sub(9);
    p.extend(rng.bytes(extra));
    let last_without_size = decorate && rng.chance(1, 8);
    data.extend(obu(rng, 6, &p, !last_without_size, decorate));
    // an extreme header is still "has the configuration", but nobody is obliged to accept it
    BuiltFrame { stored: data.clone(), data, has_config: has_config && conforming, is_key_picture: None }
}

/// The same OBU payloads in another framing: `mode` 0 pads every size field by one LEB128 byte,
/// 1 sets the reserved header bit of the sequence header OBU, 2 pads only the sequence header's size.
/// Returns None when the input does not parse as a chain of OBUs.
pub fn av1_reframe(data: &[u8], mode: u8) -> Option<Vec<u8>> {
    let mut out = Vec::with_capacity(data.len() + 8);
    let mut i = 0;
    let mut changed = false;
    while i < data.len() {
        let h = data[i];
        let typ = (h >> 3) & 0x0f;
        let ext = h & 4 != 0;
        let has_size = h & 2 != 0;
        let mut j = i + 1;
        let extb = if ext {
            let b = *data.get(j)?;
            j += 1;
            Some(b)
        } else {
            None
        };
        let (len, size_bytes) = if has_size {
            let mut v: u64 = 0;
            let mut n = 0;
            loop {
                let b = *data.get(j + n)?;
                v |= ((b & 0x7f) as u64) << (7 * n);
                n += 1;
                if b & 0x80 == 0 {
                    break;
                }
                if n >= 8 {
                    return None;
                }
            }
            (v as usize, n)
        } else {
            (data.len() - j, 0)
        };
        j += size_bytes;
        if j + len > data.len() {
            return None;
        }
        let payload = &data[j..j + len];
        let this = match mode {
            0 => has_size,
            _ => typ == 1,
        };
        let mut hh = h;
        if this && mode == 1 {
            hh |= 1;
            changed = true;
        }
        out.push(hh);
        if let Some(b) = extb {
            out.push(b);
        }
        if has_size {
            let mut l = leb128(len as u64);
            if this && mode != 1 && l.len() < 7 {
                let last = l.len() - 1;
                l[last] |= 0x80;
                l.push(0);
                changed = true;
            }
            out.extend(l);
        }
        out.extend_from_slice(payload);
        i = j + len;
    }
    if changed {
        Some(out)
    } else {
        None
    }
}

// ---------------------------------------------------------------- VP9 (the form the library accepts)

fn vp9_varuint(mut v: u32) -> Vec<u8> {
    let mut out = Vec::new();
    loop {
        let b = (v & 0x7f) as u8;
        v >>= 7;
        if v == 0 {
            out.push(b);
            break;
        }
        out.push(b | 0x80);
    }
    out
}

pub fn build_vp9(rng: &mut Rng, shape: FrameShape, stamp: u64, payload: usize, decorate: bool) -> BuiltFrame {
    let has_key = matches!(shape, FrameShape::KeyWithConfig | FrameShape::KeyNoConfig);
    let has_config = shape == FrameShape::KeyWithConfig;
    let mut d = vec![0x49, 0x83, 0x42];
    let profile = if decorate { rng.below(4) as u8 } else { 0 };
    match shape {
        FrameShape::KeyWithConfig => {
            d.push(profile << 6 | (rng.below(16) as u8));
            d.push((rng.next_u64() & 0xff) as u8);
            if profile >= 2 {
                d.push((rng.next_u64() & 0xff) as u8);
            }
            let dim = |rng: &mut Rng| -> u32 {
                match rng.below(3) {
                    0 => rng.range(1, 127) as u32,
                    1 => rng.range(128, 16383) as u32,
                    _ => rng.range(16384, 1 << 20) as u32,
                }
            };
            d.extend(vp9_varuint(dim(rng)));
            d.extend(vp9_varuint(dim(rng)));
            let differ = decorate && rng.chance(1, 4);
            if differ {
                d.push(0x04 | ((rng.below(4) as u8) << 4));
                d.extend(vp9_varuint(dim(rng)));
                d.extend(vp9_varuint(dim(rng)));
            } else {
                // next byte is both the "render size differs" probe (bits 0x0c clear) and the colour byte
            }
            let colour = ((rng.next_u64() & 0xff) as u8) & !0x0c;
            d.push(colour);
            d.push((rng.next_u64() & 0xff) as u8);
        }
        FrameShape::KeyNoConfig => {
            // marker + key frame type but too short to carry the configuration
            d.push(profile << 6);
            d.push(0);
            d.truncate(5);
            return BuiltFrame { stored: d.clone(), data: d, has_config: false, is_key_picture: Some(true) };
        }
        FrameShape::ConfigNoKey | FrameShape::Delta => {
            // inter frame: frame_type bit set
            d.push(profile << 6 | 0x10 | (rng.below(16) as u8));
            d.push((rng.next_u64() & 0xff) as u8);
        }
    }
    d.extend_from_slice(&stamp.to_be_bytes());
    let extra = payload.saturating_sub(d.len());
    d.extend(rng.bytes(extra));
    BuiltFrame { stored: d.clone(), data: d, has_config, is_key_picture: Some(has_key) }
}

pub fn build_video(rng: &mut Rng, codec: VCodec, shape: FrameShape, stamp: u64, payload: usize, decorate: bool) -> BuiltFrame {
    match codec {
        VCodec::H264 => build_h26x(rng, false, shape, stamp, payload, decorate),
        VCodec::H265 => build_h26x(rng, true, shape, stamp, payload, decorate),
        VCodec::Av1 => build_av1(rng, shape, stamp, payload, decorate),
        VCodec::Vp9 => build_vp9(rng, shape, stamp, payload, decorate),
    }
}

// ---------------------------------------------------------------- audio

pub struct AdtsParams {
    pub protection_absent: bool,
    pub profile: u8,
    pub sfi: u8,
    pub channels: u8,
    pub payload: Vec<u8>,
    /// bytes appended after the declared frame length (legal: buffer may be longer)
    pub slack: usize,
}

pub fn build_adts_raw(p: &AdtsParams, rng: &mut Rng) -> Vec<u8> {
    let hdr = if p.protection_absent { 7 } else { 9 };
    let len = hdr + p.payload.len();
    let mut f = vec![0u8; hdr];
    f[0] = 0xff;
    f[1] = 0xf0 | (p.protection_absent as u8);
    f[2] = (p.profile << 6) | (p.sfi << 2) | ((rng.below(2) as u8) << 1) | (p.channels >> 2);
    f[3] = ((p.channels & 3) << 6) | ((rng.below(16) as u8) << 2) | ((len >> 11) as u8 & 3);
    f[4] = (len >> 3) as u8;
    let fullness = rng.below(0x800) as u16;
    f[5] = ((len as u8 & 7) << 5) | ((fullness >> 6) as u8 & 0x1f);
    f[6] = ((fullness as u8 & 0x3f) << 2) | (rng.below(4) as u8);
    if hdr == 9 {
        f[7] = (rng.next_u64() & 0xff) as u8;
        f[8] = (rng.next_u64() & 0xff) as u8;
    }
    f.extend_from_slice(&p.payload);
    f.extend(rng.bytes(p.slack));
    f
}

pub fn build_adts(rng: &mut Rng, stamp: u64, payload: usize, decorate: bool) -> BuiltFrame {
    let mut body = stamp.to_be_bytes().to_vec();
    body.truncate(payload.max(1).min(8));
    let extra = payload.saturating_sub(body.len()).min(8000);
    body.extend(rng.bytes(extra));
    let p = AdtsParams {
        protection_absent: !decorate || rng.chance(3, 4),
        profile: if decorate { rng.below(4) as u8 } else { 1 },
        sfi: if decorate { rng.below(13) as u8 } else { 3 },
        channels: if decorate { rng.range(1, 7) as u8 } else { 2 },
        payload: body.clone(),
        slack: if decorate && rng.chance(1, 8) { rng.range(1, 6) as usize } else { 0 },
    };
    let data = build_adts_raw(&p, rng);
    BuiltFrame { data, stored: body, has_config: false, is_key_picture: None }
}

pub fn build_opus(rng: &mut Rng, stamp: u64, payload: usize, decorate: bool) -> BuiltFrame {
    let config = rng.below(32) as u8;
    let code = if decorate { rng.below(4) as u8 } else { 0 };
    let mut d = vec![config << 3 | ((rng.below(2) as u8) << 2) | code];
    if code == 3 {
        // keep count*duration <= 120 ms
        let dur = match config {
            0..=3 | 16..=19 => 480u32,
            4..=7 | 20..=23 => 960,
            8..=11 => 1920,
            12..=15 => 2880,
            24..=27 => 120,
            _ => 240,
        };
        let maxc = (5760 / dur).max(1).min(48) as u64;
        let count = rng.range(1, maxc) as u8;
        d.push(count | ((rng.below(2) as u8) << 7) | ((rng.below(2) as u8) << 6));
    }
    let st = stamp.to_be_bytes();
    let take = payload.min(8);
    d.extend_from_slice(&st[..take]);
    d.extend(rng.bytes(payload.saturating_sub(8).min(1500)));
    BuiltFrame { stored: d.clone(), data: d, has_config: false, is_key_picture: None }
}

pub fn build_audio(rng: &mut Rng, codec: ACodec, stamp: u64, payload: usize, decorate: bool) -> BuiltFrame {
    if codec == ACodec::Opus {
        build_opus(rng, stamp, payload, decorate)
    } else {
        build_adts(rng, stamp, payload, decorate)
    }
}

/// Expected stored bytes of an accepted frame, by definition, from the raw input.
pub fn expected_stored_video(codec: VCodec, data: &[u8]) -> Vec<u8> {
    match codec {
        VCodec::H264 | VCodec::H265 => expected_length_prefixed(data),
        _ => data.to_vec(),
    }
}

pub fn expected_stored_audio(codec: ACodec, data: &[u8]) -> Option<Vec<u8>> {
    if codec == ACodec::Opus {
        Some(data.to_vec())
    } else {
        match adts_check(data) {
            AdtsVerdict::Valid { hdr, len } => Some(data[hdr..len].to_vec()),
            AdtsVerdict::Invalid => None,
        }
    }
}

// ---------------------------------------------------------------- invalid variants

#[derive(Clone, Copy, Debug, PartialEq, Eq)]
pub enum Mangle {
    Empty,
    Truncate,
    BitFlip,
    Random,
    ZeroPayloadAdts,
    /// a valid ADTS frame with ONE header field moved to an edge of its range
    AdtsField,
}

pub fn mangle(rng: &mut Rng, good: &[u8], how: Mangle) -> Vec<u8> {
    match how {
        Mangle::Empty => Vec::new(),
        Mangle::Truncate => {
            if good.len() <= 1 {
                return Vec::new();
            }
            let n = rng.range(1, good.len() as u64 - 1) as usize;
            good[..n].to_vec()
        }
        Mangle::BitFlip => {
            let mut v = good.to_vec();
            if v.is_empty() {
                return v;
            }
            let flips = rng.range(1, 3);
            for _ in 0..flips {
                // bias to the header region where the parsers look
                let idx = if rng.chance(3, 4) { rng.usize(v.len().min(16)) } else { rng.usize(v.len()) };
                v[idx] ^= 1 << rng.below(8);
            }
            v
        }
        Mangle::Random => {
            let n = rng.range(1, 40) as usize;
            rng.bytes(n)
        }
        Mangle::AdtsField => {
            let n = rng.range(0, 12) as usize;
            let p = AdtsParams {
                protection_absent: rng.bool(),
                profile: rng.below(4) as u8,
                sfi: rng.below(13) as u8,
                channels: rng.range(1, 7) as u8,
                payload: rng.bytes(n),
                slack: if rng.chance(1, 4) { rng.range(1, 4) as usize } else { 0 },
            };
            let mut f = build_adts_raw(&p, rng);
            let hdr = if p.protection_absent { 7usize } else { 9 };
            let set_len = |f: &mut Vec<u8>, len: usize| {
                f[3] = (f[3] & !3) | ((len >> 11) as u8 & 3);
                f[4] = (len >> 3) as u8;
                f[5] = (f[5] & 0x1f) | ((len as u8 & 7) << 5);
            };
            match rng.below(8) {
                0 => {
                    // declared frame length at the edges: below / at the header length, at / past the buffer
                    let buf = f.len();
                    let len = *rng.pick(&[0usize, 1, 6, 7, 8, 9, hdr - 1, hdr, hdr + 1, buf - 1, buf, buf + 1, 8191]);
                    set_len(&mut f, len);
                }
                1 => f[2] = (f[2] & !0x3c) | ((rng.range(12, 15) as u8) << 2), // sampling index 12 (last valid) .. 15
                2 => {
                    // channel configuration 0 / 7
                    let ch = *rng.pick(&[0u8, 7]);
                    f[2] = (f[2] & !1) | (ch >> 2);
                    f[3] = (f[3] & 0x3f) | ((ch & 3) << 6);
                }
                3 => f[1] ^= 1 << rng.range(1, 3), // layer bits / MPEG id
                4 => f[1] ^= 1,                     // protection flag flipped under an unchanged length
                5 => {
                    // the buffer cut at the header edges
                    let cut = *rng.pick(&[6usize, 7, 8, 9, hdr - 1, hdr]);
                    f.truncate(cut.min(f.len()));
                }
                6 => {
                    // header-only frame of the CRC form: length 9, and the lengths just below it
                    f[1] &= !1;
                    f.resize(9usize.max(f.len()), 0x5a);
                    let len = *rng.pick(&[7usize, 8, 9]);
                    set_len(&mut f, len);
                }
                _ => f[0] = *rng.pick(&[0xfeu8, 0x7f, 0x00]),
            }
            f
        }
        Mangle::ZeroPayloadAdts => {
            let p = AdtsParams {
                protection_absent: rng.bool(),
                profile: 1,
                sfi: 3,
                channels: 2,
                payload: Vec::new(),
                slack: 0,
            };
            build_adts_raw(&p, rng)
        }
    }
}

#[cfg(test)]
mod tests {
    use super::*;

    #[test]
    fn splitter_basics() {
        let d = [0, 0, 0, 1, 0x67, 0x42, 0, 0, 1, 0x68, 0xce];
        let u = split_annexb(&d);
        assert_eq!(u, vec![&[0x67u8, 0x42][..], &[0x68, 0xce][..]]);
        // 00 00 00 00 01: the first zero belongs to the previous unit
        let d = [0, 0, 1, 0x65, 0xaa, 0, 0, 0, 0, 1, 0x41];
        let u = split_annexb(&d);
        assert_eq!(u, vec![&[0x65u8, 0xaa, 0][..], &[0x41][..]]);
        // no start code: whole input
        let d = [1u8, 2, 3];
        assert_eq!(split_annexb(&d), vec![&d[..]]);
        // only a start code: nothing after it => whole input as one unit
        let d = [0u8, 0, 1];
        assert_eq!(split_annexb(&d), vec![&d[..]]);
        assert!(split_annexb(&[]).is_empty());
    }

    #[test]
    fn constructive_frames_agree_with_definition() {
        let mut rng = Rng::new(7);
        for i in 0..20000u64 {
            let hevc = rng.bool();
            let shape = *rng.pick(&[FrameShape::KeyWithConfig, FrameShape::KeyNoConfig, FrameShape::ConfigNoKey, FrameShape::Delta]);
            let n = SizeClass::draw(&mut rng, 0);
            let f = build_h26x(&mut rng, hevc, shape, i, n, true);
            assert_eq!(expected_length_prefixed(&f.data), f.stored, "case {i}");
        }
    }

    #[test]
    fn adts_builder_is_valid() {
        let mut rng = Rng::new(9);
        for i in 0..5000u64 {
            let n = rng.range(1, 600) as usize;
            let f = build_adts(&mut rng, i, n, true);
            match adts_check(&f.data) {
                AdtsVerdict::Valid { hdr, len } => assert_eq!(&f.data[hdr..len], &f.stored[..]),
                AdtsVerdict::Invalid => panic!("built invalid adts"),
            }
        }
    }
}
