//! Seam V4: the process environment read by std — wall clock and OS entropy.
//! The harness binary defines `clock_gettime` and `getrandom` itself; the
//! dynamic linker resolves std's calls to these definitions, which pass through
//! to the kernel unless the simulation has switched them on.

use std::sync::atomic::{AtomicBool, AtomicI64, AtomicU64, Ordering};

pub static SIM_CLOCK_ON: AtomicBool = AtomicBool::new(false);
pub static SIM_CLOCK_SECS: AtomicI64 = AtomicI64::new(0);
pub static CLOCK_READS: AtomicU64 = AtomicU64::new(0);
/// simulated monotonic clock (nanoseconds since an arbitrary origin); only ever moved forwards by the harness
pub static SIM_MONO_NANOS: AtomicU64 = AtomicU64::new(1_000_000_000);
pub static SIM_ENTROPY_ON: AtomicBool = AtomicBool::new(false);
pub static ENTROPY_READS: AtomicU64 = AtomicU64::new(0);

thread_local! {
    /// entropy seed of the current thread (set right after the thread starts)
    pub static THREAD_ENTROPY: std::cell::Cell<u64> = const { std::cell::Cell::new(0x1234_5678_9abc_def0) };
}

#[no_mangle]
pub unsafe extern "C" fn clock_gettime(clk: libc::clockid_t, ts: *mut libc::timespec) -> libc::c_int {
    if clk == libc::CLOCK_REALTIME && SIM_CLOCK_ON.load(Ordering::SeqCst) {
        CLOCK_READS.fetch_add(1, Ordering::SeqCst);
        (*ts).tv_sec = SIM_CLOCK_SECS.load(Ordering::SeqCst) as libc::time_t;
        (*ts).tv_nsec = 0;
        return 0;
    }
    // the monotonic family (Instant::now): simulated too, so that no deadline in the code under test reads real time
    if matches!(clk, libc::CLOCK_MONOTONIC | libc::CLOCK_MONOTONIC_RAW | libc::CLOCK_MONOTONIC_COARSE | libc::CLOCK_BOOTTIME) && SIM_CLOCK_ON.load(Ordering::SeqCst) {
        CLOCK_READS.fetch_add(1, Ordering::SeqCst);
        let n = SIM_MONO_NANOS.load(Ordering::SeqCst);
        (*ts).tv_sec = (n / 1_000_000_000) as libc::time_t;
        (*ts).tv_nsec = (n % 1_000_000_000) as libc::c_long;
        return 0;
    }
    let r = libc::syscall(libc::SYS_clock_gettime, clk as libc::c_long, ts);
    r as libc::c_int
}

#[no_mangle]
pub unsafe extern "C" fn getrandom(buf: *mut libc::c_void, len: libc::size_t, flags: libc::c_uint) -> libc::ssize_t {
    if SIM_ENTROPY_ON.load(Ordering::SeqCst) {
        ENTROPY_READS.fetch_add(1, Ordering::SeqCst);
        let mut s = THREAD_ENTROPY.with(|c| c.get());
        let out = std::slice::from_raw_parts_mut(buf as *mut u8, len);
        for b in out.iter_mut() {
            // splitmix step per byte; quality is irrelevant, determinism is the point
            s = s.wrapping_add(0x9e3779b97f4a7c15);
            let mut z = s;
            z = (z ^ (z >> 30)).wrapping_mul(0xbf58476d1ce4e5b9);
            z = (z ^ (z >> 27)).wrapping_mul(0x94d049bb133111eb);
            *b = (z ^ (z >> 31)) as u8;
        }
        THREAD_ENTROPY.with(|c| c.set(s));
        return len as libc::ssize_t;
    }
    libc::syscall(libc::SYS_getrandom, buf, len, flags as libc::c_long) as libc::ssize_t
}

/// Verify that both seams are really in the path of std. Returns an error text otherwise.
pub fn self_test() -> Result<(), String> {
    use std::collections::hash_map::RandomState;
    use std::hash::BuildHasher;
    // clock
    SIM_CLOCK_SECS.store(4_102_444_800, Ordering::SeqCst); // 2100-01-01
    SIM_CLOCK_ON.store(true, Ordering::SeqCst);
    let now = std::time::SystemTime::now().duration_since(std::time::UNIX_EPOCH).map(|d| d.as_secs()).unwrap_or(0);
    SIM_CLOCK_ON.store(false, Ordering::SeqCst);
    if now != 4_102_444_800 {
        return Err(format!("clock seam not effective: SystemTime::now() returned {} under a simulated clock of 4102444800", now));
    }
    let real = std::time::SystemTime::now().duration_since(std::time::UNIX_EPOCH).map(|d| d.as_secs()).unwrap_or(0);
    if real == 4_102_444_800 {
        return Err("clock seam does not pass through when switched off".into());
    }
    // entropy: same seed => same hasher keys in fresh threads, different seed => different
    SIM_ENTROPY_ON.store(true, Ordering::SeqCst);
    let probe = |seed: u64| -> u64 {
        std::thread::spawn(move || {
            THREAD_ENTROPY.with(|c| c.set(seed));
            RandomState::new().hash_one(0xabcdu64)
        })
        .join()
        .unwrap()
    };
    let a = probe(7);
    let b = probe(7);
    let c = probe(8);
    SIM_ENTROPY_ON.store(false, Ordering::SeqCst);
    if a != b || a == c {
        return Err(format!("entropy seam not effective: hashes {:x} {:x} {:x}", a, b, c));
    }
    Ok(())
}
