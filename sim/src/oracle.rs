//! Oracles over one (or two) executions of a progressive history.

use crate::case::*;
use crate::exec::{ProgExec, Res};
use crate::model::{self, ContractState, LogicalMovie, MSample, Verdict, EV};
use crate::reader::{self, Movie, Track};
use crate::sink::Outcome;

#[derive(Clone, Debug)]
pub struct Violation {
    pub property: &'static str,
    /// stable slug of the clause that failed
    pub class: String,
    /// normalised discriminator (no run-specific numbers)
    pub key: String,
    pub detail: String,
}

pub fn v(property: &'static str, class: &str, key: impl Into<String>, detail: impl Into<String>) -> Violation {
    Violation { property, class: format!("{}/{}", property, class), key: key.into(), detail: detail.into() }
}

/// Strip digits and run-specific payload from a message so that it can serve as a key.
pub fn normalise(msg: &str) -> String {
    let mut out = String::with_capacity(msg.len());
    let mut last_hash = false;
    for c in msg.chars() {
        if c.is_ascii_digit() {
            if !last_hash {
                out.push('#');
                last_hash = true;
            }
        } else {
            out.push(c);
            last_hash = false;
        }
    }
    if out.len() > 120 {
        let mut cut = 120;
        while !out.is_char_boundary(cut) {
            cut -= 1;
        }
        out.truncate(cut);
    }
    out
}

pub fn op_entry(op: &Op) -> &'static str {
    match op {
        Op::Video { .. } => "write_video",
        Op::VideoDts { .. } => "write_video_with_dts",
        Op::Audio { .. } => "write_audio",
        Op::EncVideo { .. } => "encode_video",
        Op::EncAudio { .. } => "encode_audio",
        Op::Finish(_) => "finish",
        Op::Drop => "drop",
        Op::ClearLog => "clear_invariant_log",
        Op::ReadLog => "get_logged_invariants",
    }
}

/// Panics anywhere in the history (every check is sensitive to them).
pub fn panics(prop: &'static str, case: &ProgCase, ex: &ProgExec) -> Vec<Violation> {
    let mut out = Vec::new();
    if let Res::Panic { msg, loc } = &ex.build {
        out.push(v(prop, "panic", format!("build:{}", normalise(msg)), format!("builder panicked: {} at {}", msg, loc)));
    }
    if let Some((i, msg, loc)) = ex.first_panic() {
        out.push(v(
            prop,
            "panic",
            format!("{}:{}", op_entry(&case.ops[i]), normalise(msg)),
            format!("op {} ({}) panicked: {} at {}", i, op_entry(&case.ops[i]), msg, loc),
        ));
    }
    out
}

pub struct Parsed {
    pub tree: Vec<reader::BoxNode>,
    pub movie: Movie,
    pub problems: Vec<String>,
}

pub fn parse_file(bytes: &[u8]) -> Result<Parsed, String> {
    let tree = reader::parse_tree(bytes).map_err(|e| e.to_string())?;
    let mut problems = Vec::new();
    let movie = reader::decode_movie(bytes, &tree, &mut problems);
    Ok(Parsed { tree, movie, problems })
}

pub fn video_track(m: &Movie) -> Option<&Track> {
    m.tracks.iter().find(|t| &t.handler == b"vide")
}
pub fn audio_track(m: &Movie) -> Option<&Track> {
    m.tracks.iter().find(|t| &t.handler == b"soun")
}

/// The run ended in a successful finish with a fully delivered file and no panic.
pub fn complete_file<'a>(case: &ProgCase, ex: &'a ProgExec) -> Option<(usize, &'a [u8])> {
    if ex.first_panic().is_some() || !ex.build.is_ok() {
        return None;
    }
    let fi = ex.finished_ok(case)?;
    Some((fi, ex.final_bytes()))
}

// ---------------------------------------------------------------- C01

pub fn c01_addressing(prop: &'static str, case: &ProgCase, ex: &ProgExec, lm: &LogicalMovie, bytes: &[u8]) -> Vec<Violation> {
    let mut out = Vec::new();
    let p = match parse_file(bytes) {
        Ok(p) => p,
        Err(e) => {
            out.push(v(prop, "file-unreadable", normalise(&e), format!("finished file does not parse: {}", e)));
            return out;
        }
    };
    let _ = ex;
    let mut ranges: Vec<(u64, u64, String)> = Vec::new();
    let expect_audio = case.cfg.audio_effective().is_some();
    let mut check_track = |name: &str, t: Option<&Track>, want: &[MSample], out: &mut Vec<Violation>| {
        let t = match t {
            Some(t) => t,
            None => {
                out.push(v(prop, "track-missing", name, format!("{} track not found in file", name)));
                return;
            }
        };
        if t.samples.len() != want.len() {
            out.push(v(
                prop,
                "sample-count",
                name,
                format!("{} track: file has {} samples (stsz {}), {} frames were accepted", name, t.samples.len(), t.stsz.len(), want.len()),
            ));
            return;
        }
        for (i, (s, w)) in t.samples.iter().zip(want.iter()).enumerate() {
            let a = s.offset as usize;
            let b = a.checked_add(s.size as usize).unwrap_or(usize::MAX);
            if b > bytes.len() {
                out.push(v(prop, "sample-out-of-file", name, format!("{} sample {} at [{}, {}) beyond file length {}", name, i, a, b, bytes.len())));
                return;
            }
            if &bytes[a..b] != &w.stored[..] {
                // does it resolve to another frame's bytes?
                let other = want.iter().position(|o| o.stored[..] == bytes[a..b]);
                let kind = match other {
                    Some(_) => "resolves-to-other-frame",
                    None => "bytes-differ",
                };
                out.push(v(
                    prop,
                    "sample-bytes",
                    format!("{}:{}", name, kind),
                    format!(
                        "{} sample {} (op {}) at offset {} size {} does not hold the submitted payload (expected {} bytes){}",
                        name,
                        i,
                        w.op_index,
                        a,
                        s.size,
                        w.stored.len(),
                        other.map(|j| format!("; it holds the payload of sample {}", j)).unwrap_or_default()
                    ),
                ));
                return;
            }
            if let Some(k) = w.key {
                if name == "video" && s.sync != k {
                    out.push(v(prop, "sync-flag", name, format!("video sample {}: sync flag {} but submitted keyframe flag {}", i, s.sync, k)));
                    return;
                }
            }
            ranges.push((a as u64, b as u64, format!("{} {}", name, i)));
        }
        if name == "audio" && t.stss.is_some() {
            out.push(v(prop, "sync-flag", "audio-has-stss", "audio track carries a sync sample table".to_string()));
        }
    };
    check_track("video", video_track(&p.movie), &lm.video, &mut out);
    if expect_audio {
        check_track("audio", audio_track(&p.movie), &lm.audio, &mut out);
    } else if audio_track(&p.movie).is_some() {
        out.push(v(prop, "unexpected-track", "audio", "audio track present although none configured".to_string()));
    }
    if !out.is_empty() {
        return out;
    }
    // ranges: inside mdat, disjoint, covering
    ranges.retain(|r| r.1 > r.0);
    ranges.sort();
    match p.movie.mdat_payload {
        None => {
            if !ranges.is_empty() {
                out.push(v(prop, "mdat", "missing", "samples exist but the file has no mdat".to_string()));
            }
        }
        Some((ms, me)) => {
            let mut cur = ms;
            for (a, b, who) in &ranges {
                if *a < cur {
                    out.push(v(prop, "ranges", if *a < ms { "outside-mdat" } else { "overlap" }, format!("sample {} range [{}, {}) overlaps or precedes position {} (mdat payload [{}, {}))", who, a, b, cur, ms, me)));
                    return out;
                }
                if *a > cur {
                    out.push(v(prop, "ranges", "gap", format!("bytes [{}, {}) of the mdat payload belong to no sample", cur, a)));
                    return out;
                }
                cur = *b;
            }
            if cur > me {
                out.push(v(prop, "ranges", "outside-mdat", format!("samples end at {} beyond mdat payload end {}", cur, me)));
            } else if cur < me {
                out.push(v(prop, "ranges", "gap", format!("bytes [{}, {}) at the end of the mdat payload belong to no sample", cur, me)));
            }
        }
    }
    out
}

// ---------------------------------------------------------------- C02 (progressive part)

pub fn c02_structure(prop: &'static str, case: &ProgCase, bytes: &[u8]) -> Vec<Violation> {
    let mut out = Vec::new();
    let tree = match reader::parse_tree(bytes) {
        Ok(t) => t,
        Err(e) => {
            out.push(v(prop, "tiling", normalise(&format!("{} in {}", e.msg, e.path)), format!("progressive file: {}", e)));
            return out;
        }
    };
    let mut probs = Vec::new();
    let expect = 1 + case.cfg.audio_effective().is_some() as usize;
    reader::check_moov_structure(bytes, &tree, expect, false, &mut probs);
    let movie = reader::decode_movie(bytes, &tree, &mut probs);
    // every trak must have distinct handler roles as configured
    let nv = movie.tracks.iter().filter(|t| &t.handler == b"vide").count();
    let na = movie.tracks.iter().filter(|t| &t.handler == b"soun").count();
    if nv != 1 || na != expect - 1 {
        probs.push(format!("{} video and {} audio tracks, expected 1 and {}", nv, na, expect - 1));
    }
    for t in &movie.tracks {
        if t.stsd_entry_count != 1 {
            probs.push(format!("stsd entry count {}", t.stsd_entry_count));
        }
    }
    for pbl in probs {
        out.push(v(prop, "structure", normalise(&pbl), format!("progressive file: {}", pbl)));
    }
    out
}

// ---------------------------------------------------------------- C03

fn cands(t: &model::Ticks) -> Vec<u64> {
    let mut c = vec![t.exact];
    if let Some(a) = t.alt {
        c.push(a);
    }
    c
}

pub fn c03_timing(prop: &'static str, lm: &LogicalMovie, movie: &Movie, has_audio: bool) -> Vec<Violation> {
    let mut out = Vec::new();
    if lm.inexact {
        return out;
    }
    let mut track = |name: &str, t: Option<&Track>, want: &[MSample], out: &mut Vec<Violation>| {
        let t = match t {
            Some(t) => t,
            None => return,
        };
        if t.samples.len() != want.len() {
            return; // C01's business
        }
        let n = want.len();
        if n == 0 {
            if t.mdhd_duration != 0 {
                out.push(v(prop, "media-duration", format!("{}:empty-track", name), format!("{} track without samples declares duration {}", name, t.mdhd_duration)));
            }
            return;
        }
        // cumulative decode time relative to the first sample
        let c0 = cands(&want[0].dts);
        for k in 1..n {
            let file_rel = t.samples[k].dts; // decode_track starts at 0
            let ok = cands(&want[k].dts).iter().any(|e| c0.iter().any(|z| e.checked_sub(*z) == Some(file_rel)));
            if !ok {
                // classify: single delta wrong or accumulated drift
                let prev_ok = k == 1 || cands(&want[k - 1].dts).iter().any(|e| c0.iter().any(|z| e.checked_sub(*z) == Some(t.samples[k - 1].dts)));
                let want_delta = want[k].dts.exact as i128 - want[k - 1].dts.exact as i128;
                let got_delta = t.samples[k - 1].duration as i128;
                let kind = if !prev_ok {
                    "drift"
                } else if got_delta == want_delta {
                    "drift"
                } else {
                    "delta"
                };
                out.push(v(
                    prop,
                    "decode-delta",
                    format!("{}:{}", name, kind),
                    format!(
                        "{} sample {}: decode time in file {} ticks after the first sample, submitted {} (delta {} vs {})",
                        name,
                        k,
                        file_rel,
                        want[k].dts.exact as i128 - want[0].dts.exact as i128,
                        got_delta,
                        want_delta
                    ),
                ));
                return;
            }
        }
        if n >= 2 {
            let last = t.samples[n - 1].duration;
            let prev = t.samples[n - 2].duration;
            if last != prev {
                out.push(v(prop, "last-duration", name, format!("{} track: last sample duration {} but preceding interval {}", name, last, prev)));
            }
        }
        let sum: u64 = t.samples.iter().map(|s| s.duration as u64).sum();
        if t.mdhd_duration != sum {
            out.push(v(prop, "media-duration", name, format!("{} track: declared media duration {} but sample durations sum to {}", name, t.mdhd_duration, sum)));
        }
        if name == "video" {
            let mut any_nonzero = false;
            for k in 0..n {
                let ok = cands(&want[k].pts).iter().any(|p| cands(&want[k].dts).iter().any(|d| *p as i128 - *d as i128 == t.samples[k].cts as i128));
                let w = want[k].pts.exact as i128 - want[k].dts.exact as i128;
                if w != 0 {
                    any_nonzero = true;
                }
                if !ok {
                    out.push(v(prop, "composition-offset", if t.ctts.is_none() { "missing-table" } else { "value" }, format!("video sample {}: composition offset {} in file, submitted pts-dts = {}", k, t.samples[k].cts, w)));
                    return;
                }
            }
            let ambiguous = want.iter().any(|s| s.pts.alt.is_some() || s.dts.alt.is_some());
            if !ambiguous && t.ctts.is_some() != any_nonzero {
                out.push(v(prop, "composition-table-presence", if any_nonzero { "absent" } else { "present-but-all-zero" }, format!("ctts present: {}, some offset non-zero: {}", t.ctts.is_some(), any_nonzero)));
            }
        } else if t.ctts.is_some() {
            out.push(v(prop, "composition-table-presence", "audio", "audio track has a composition offset table".to_string()));
        }
    };
    track("video", video_track(movie), &lm.video, &mut out);
    if has_audio {
        track("audio", audio_track(movie), &lm.audio, &mut out);
    }
    out
}

// ---------------------------------------------------------------- C04

pub struct ContractStats {
    pub judged: u64,
    pub must_accept: u64,
    pub must_reject: u64,
    pub either: u64,
    pub either_why: std::collections::BTreeMap<&'static str, u64>,
}

pub fn c04_contract(prop: &'static str, case: &ProgCase, ex: &ProgExec, stats: &mut ContractStats) -> Vec<Violation> {
    let mut out = Vec::new();
    // build
    match (&case.cfg.video, &ex.build) {
        (None, Res::Err { ev: EV::MissingVideoConfig, .. }) => return out,
        (None, r) => {
            out.push(v(prop, "build", "no-video-accepted", format!("builder without video configuration returned {}", r.short())));
            return out;
        }
        (Some(_), Res::Ok) => {}
        (Some(_), Res::Panic { .. }) => return out,
        (Some(_), r) => {
            out.push(v(prop, "build", "valid-config-rejected", format!("builder with video configuration returned {}", r.short())));
            return out;
        }
    }
    let mut st = ContractState::new(&case.cfg);
    for (i, op) in case.ops.iter().enumerate() {
        let rec = &ex.ops[i];
        match &rec.res {
            Res::NoObject => continue,
            Res::Panic { .. } => break, // C12's business; state unknown afterwards
            _ => {}
        }
        if matches!(op, Op::Drop | Op::ClearLog | Op::ReadLog) {
            continue;
        }
        let verdict = st.judge(op);
        stats.judged += 1;
        let accepted = rec.res.is_ok();
        match &verdict {
            Verdict::MustAccept => {
                stats.must_accept += 1;
                if !accepted {
                    // a failed write into a faulty sink is legitimate for finish
                    let io_fault = matches!(op, Op::Finish(_)) && ex.sink.fatal_fault_seen();
                    if !io_fault {
                        out.push(v(
                            prop,
                            "valid-call-rejected",
                            format!("{}:{:?}", op_entry(op), rec.res.ev().unwrap_or(EV::Unknown)),
                            format!("op {} ({}) violates no documented precondition but returned {}", i, op_entry(op), rec.res.short()),
                        ));
                        return out;
                    }
                }
            }
            Verdict::MustReject(allowed) => {
                stats.must_reject += 1;
                if accepted {
                    out.push(v(
                        prop,
                        "invalid-call-accepted",
                        format!("{}:{:?}", op_entry(op), allowed),
                        format!("op {} ({}) violates {:?} but returned Ok", i, op_entry(op), allowed),
                    ));
                    return out;
                }
                let ev = rec.res.ev().unwrap_or(EV::Unknown);
                let mut ok = allowed.contains(&ev);
                if ok && ev == EV::Io && !st.finish_failed && !ex.sink.fatal_fault_seen() {
                    // the only documented Io rejection of a write is the 32-bit duration overflow
                    if let Res::Err { io_kind, .. } = &rec.res {
                        ok = io_kind.as_deref() == Some("InvalidData");
                    }
                }
                if !ok {
                    out.push(v(
                        prop,
                        "error-names-wrong-precondition",
                        format!("{}:{:?}:allowed{:?}", op_entry(op), ev, allowed),
                        format!("op {} ({}) violated {:?} but the error says {}", i, op_entry(op), allowed, rec.res.short()),
                    ));
                    return out;
                }
            }
            Verdict::Either(why) => {
                stats.either += 1;
                *stats.either_why.entry(why).or_insert(0) += 1;
            }
        }
        let io_failed = matches!(rec.res.ev(), Some(EV::Io));
        st.apply(op, accepted, io_failed);
    }
    out
}

// ---------------------------------------------------------------- C06

/// Expected "largest presentation end time" in ticks: (lo, hi) acceptable interval.
pub fn expected_end_ticks(lm: &LogicalMovie) -> Option<(i128, i128)> {
    let mut lo: Option<i128> = None;
    let mut hi: Option<i128> = None;
    for tr in [&lm.video, &lm.audio] {
        let n = tr.len();
        for (i, s) in tr.iter().enumerate() {
            let (dlo, dhi): (i128, i128) = if n == 1 {
                (0, 1)
            } else if i + 1 < n {
                let d = tr[i + 1].dts.exact as i128 - s.dts.exact as i128;
                (d, d)
            } else {
                let d = s.dts.exact as i128 - tr[i - 1].dts.exact as i128;
                (d, d)
            };
            let p = s.pts.exact as i128;
            lo = Some(lo.map_or(p + dlo, |x| x.max(p + dlo)));
            hi = Some(hi.map_or(p + dhi, |x| x.max(p + dhi)));
        }
    }
    match (lo, hi) {
        (Some(a), Some(b)) => Some((a, b)),
        _ => None,
    }
}

pub fn c06_finalise(prop: &'static str, case: &ProgCase, ex: &ProgExec, lm: &LogicalMovie) -> Vec<Violation> {
    let mut out = Vec::new();
    if ex.first_panic().is_some() {
        return out;
    }
    // (a) nothing is written outside a finish attempt
    for e in &ex.sink.events {
        let opi = e.op as usize;
        let is_finish = case.ops.get(opi).map(|o| matches!(o, Op::Finish(_))).unwrap_or(false);
        if !is_finish {
            let what = case.ops.get(opi).map(op_entry).unwrap_or("drop-at-end");
            out.push(v(prop, "write-outside-finish", what, format!("sink write call {} ({} bytes) happened during op {} ({})", e.call, e.len, opi, what)));
            return out;
        }
    }
    let fi = match ex.finished_ok(case) {
        Some(i) => i,
        None => {
            return out;
        }
    };
    // (b) after the successful finish: everything fails and nothing is written
    for (i, op) in case.ops.iter().enumerate().skip(fi + 1) {
        match &ex.ops[i].res {
            Res::NoObject => continue,
            Res::Ok => {
                if matches!(op, Op::Drop | Op::ClearLog | Op::ReadLog) {
                    continue;
                }
                out.push(v(prop, "call-after-finish-accepted", op_entry(op), format!("op {} ({}) after the successful finish (op {}) returned Ok", i, op_entry(op), fi)));
                return out;
            }
            _ => {}
        }
    }
    if let Some(e) = ex.sink.events.iter().find(|e| e.op as usize > fi) {
        out.push(v(prop, "write-after-finish", "sink", format!("sink write call {} during op {} after the successful finish at op {}", e.call, e.op, fi)));
        return out;
    }
    // "a successful finish writes the complete file once": nothing may have reached the sink in an earlier attempt
    if let Some(e) = ex.sink.events.iter().find(|e| (e.op as usize) < fi && matches!(e.outcome, Outcome::Accepted(n) if n > 0)) {
        out.push(v(
            prop,
            "file-written-more-than-once",
            "finish-after-failed-finish",
            format!("finish at op {} succeeded although the finish attempt at op {} had already delivered {} bytes to the sink: the sink now holds a partial file followed by a complete one", fi, e.op, e.len),
        ));
        return out;
    }
    // exactly one finish attempt wrote: all events belong to op fi (earlier failed attempts only under faults)
    if case.faults.is_empty() {
        if let Some(e) = ex.sink.events.iter().find(|e| e.op as usize != fi) {
            out.push(v(prop, "write-outside-finish", "other-finish", format!("sink write during op {} although the successful finish is op {}", e.op, fi)));
            return out;
        }
    }
    // (c) statistics
    if let Some(s) = &ex.ops[fi].stats {
        if s.video_frames != lm.video.len() as u64 {
            out.push(v(prop, "stats", "video_frames", format!("stats.video_frames = {} but {} video frames were accepted", s.video_frames, lm.video.len())));
        }
        if s.audio_frames != lm.audio.len() as u64 {
            out.push(v(prop, "stats", "audio_frames", format!("stats.audio_frames = {} but {} audio frames were accepted", s.audio_frames, lm.audio.len())));
        }
        let delivered = ex.sink.accepted_total;
        if s.bytes_written != delivered {
            out.push(v(prop, "stats", "bytes_written", format!("stats.bytes_written = {} but the sink accepted {} bytes", s.bytes_written, delivered)));
        }
        if !lm.inexact {
            let got = s.duration_secs * 90000.0;
            match expected_end_ticks(lm) {
                None => {
                    if s.duration_secs != 0.0 {
                        out.push(v(prop, "stats", "duration:empty", format!("stats.duration_secs = {} with no samples", s.duration_secs)));
                    }
                }
                Some((lo, hi)) => {
                    // a timestamp within rounding of a half tick may land on either neighbour: pts and
                    // the last interval can each move by one
                    let amb = if lm.video.iter().chain(lm.audio.iter()).any(|s| s.pts.alt.is_some() || s.dts.alt.is_some()) { 2.0 } else { 0.0 };
                    let lo_f = lo as f64 - 1.0 - amb - 1e-6;
                    let hi_f = hi as f64 + 1.0 + amb + 1e-6;
                    if !(got >= lo_f && got <= hi_f) {
                        let reordered = lm.video.iter().any(|s| s.pts.exact != s.dts.exact);
                        out.push(v(
                            prop,
                            "stats",
                            if reordered { "duration:reordered" } else { "duration" },
                            format!("stats.duration_secs = {} ({} ticks) but the largest presentation end time is in [{}, {}] ticks", s.duration_secs, got, lo, hi),
                        ));
                    }
                }
            }
        }
    }
    out
}

// ---------------------------------------------------------------- C09

pub fn c09_sync(prop: &'static str, lm: &LogicalMovie, movie: &Movie) -> Vec<Violation> {
    let mut out = Vec::new();
    if lm.inexact || lm.audio.is_empty() || lm.video.is_empty() {
        return out;
    }
    let (vt, at) = match (video_track(movie), audio_track(movie)) {
        (Some(a), Some(b)) => (a, b),
        _ => return out,
    };
    if vt.samples.len() != lm.video.len() || at.samples.len() != lm.audio.len() {
        return out;
    }
    // presentation time of a sample on the movie timeline, in media ticks:
    // composition time, shifted by the track's edit list (empty edits delay, media_time advances)
    let shift = |t: &Track, movie_ts: u32| -> Option<f64> {
        match &t.elst {
            None => Some(0.0),
            Some(e) => {
                let mut delay = 0.0f64;
                let mut media_time = 0.0f64;
                for (dur, mt, _) in e {
                    if *mt == -1 {
                        delay += *dur as f64 * t.timescale as f64 / movie_ts.max(1) as f64;
                    } else {
                        media_time = *mt as f64;
                        break;
                    }
                }
                Some(delay - media_time)
            }
        }
    };
    let vs = shift(vt, movie.mvhd_timescale).unwrap_or(0.0);
    let as_ = shift(at, movie.mvhd_timescale).unwrap_or(0.0);
    let v0 = vt.samples[0].dts as f64 + vt.samples[0].cts as f64 + vs;
    let want_v0 = lm.video[0].pts.exact as f64;
    let mut devs: Vec<f64> = Vec::new();
    for (k, s) in at.samples.iter().enumerate() {
        let file = s.dts as f64 + s.cts as f64 + as_ - v0;
        let want = lm.audio[k].pts.exact as f64 - want_v0;
        devs.push(file - want);
    }
    let tol = 1.0
        + if lm.audio.iter().any(|s| s.pts.alt.is_some()) { 1.0 } else { 0.0 }
        + if lm.video[0].pts.alt.is_some() || lm.video[0].dts.alt.is_some() { 1.0 } else { 0.0 }
        + 1e-6;
    if let Some((k, d)) = devs.iter().enumerate().find(|(_, d)| d.abs() > tol) {
        let dmax = devs.iter().cloned().fold(f64::MIN, f64::max);
        let dmin = devs.iter().cloned().fold(f64::MAX, f64::min);
        let constant = dmax - dmin <= 2.0;
        let first_diff = (lm.audio[0].pts.exact as f64 - lm.video[0].pts.exact as f64) - 0.0;
        // The pinned defect: no edit list, each track starts at zero. Then every audio sample deviates by
        // exactly (first video decode time - first audio time). Only that deviation carries the known key.
        let known_dev = lm.video[0].dts.exact as f64 - lm.audio[0].pts.exact as f64;
        let both_from_zero = constant && vt.elst.is_none() && at.elst.is_none() && devs.iter().all(|x| (x - known_dev).abs() <= tol);
        let key = if both_from_zero {
            "constant-start-offset-lost"
        } else if constant {
            "constant-offset"
        } else {
            "varying-offset"
        };
        out.push(v(
            prop,
            "av-offset",
            key,
            format!(
                "audio sample {} is presented {:.1} ticks {} relative to the first video sample than submitted (submitted first-audio minus first-video = {:.1} ticks; deviations constant: {})",
                k,
                d.abs(),
                if *d < 0.0 { "earlier" } else { "later" },
                first_diff,
                constant
            ),
        ));
    }
    out
}

// ---------------------------------------------------------------- C15

pub fn c15_interleave(prop: &'static str, lm: &LogicalMovie, movie: &Movie) -> Vec<Violation> {
    let mut out = Vec::new();
    let (vt, at) = match (video_track(movie), audio_track(movie)) {
        (Some(a), Some(b)) => (a, b),
        _ => return out,
    };
    if vt.samples.len() != lm.video.len() || at.samples.len() != lm.audio.len() {
        return out;
    }
    for (name, t) in [("video", vt), ("audio", at)] {
        let mut prev: Option<u64> = None;
        for (i, s) in t.samples.iter().enumerate() {
            if let Some(p) = prev {
                if s.offset < p {
                    out.push(v(prop, "track-order", name, format!("{} sample {} is stored at {} before the end of sample {} at {}", name, i, s.offset, i - 1, p)));
                    return out;
                }
            }
            prev = Some(s.offset + s.size as u64);
        }
    }
    if lm.inexact {
        return out;
    }
    let reordered = lm.video.iter().any(|s| s.pts.exact != s.dts.exact || s.pts.alt.is_some() || s.dts.alt.is_some());
    if reordered || lm.audio.iter().any(|s| s.pts.alt.is_some()) {
        return out;
    }
    // expected global order: merge by timestamp, video first on ties, then sample index
    let mut expect: Vec<(u64, u8, usize)> = Vec::new();
    for (i, s) in lm.video.iter().enumerate() {
        expect.push((s.pts.exact, 0, i));
    }
    for (i, s) in lm.audio.iter().enumerate() {
        expect.push((s.pts.exact, 1, i));
    }
    expect.sort();
    let mut actual: Vec<(u64, u8, usize)> = Vec::new();
    for (i, s) in vt.samples.iter().enumerate() {
        actual.push((s.offset, 0, i));
    }
    for (i, s) in at.samples.iter().enumerate() {
        actual.push((s.offset, 1, i));
    }
    // empty samples share offsets; order among equal offsets by expectation is not observable
    actual.sort_by_key(|x| x.0);
    let exp_seq: Vec<(u8, usize)> = expect.iter().map(|x| (x.1, x.2)).collect();
    let act_seq: Vec<(u8, usize)> = actual.iter().map(|x| (x.1, x.2)).collect();
    if exp_seq != act_seq {
        let pos = exp_seq.iter().zip(act_seq.iter()).position(|(a, b)| a != b).unwrap_or(0);
        let tie = pos < expect.len() && expect.iter().filter(|e| e.0 == expect[pos].0).count() > 1;
        out.push(v(
            prop,
            "merge-order",
            if tie { "tie" } else { "timestamp" },
            format!(
                "storage position {}: found {:?} but the merge by timestamp (video first on ties) puts {:?} there",
                pos,
                act_seq.get(pos),
                exp_seq.get(pos)
            ),
        ));
    }
    out
}

// ---------------------------------------------------------------- sink helpers

pub fn sink_summary(ex: &ProgExec) -> (u64, u64) {
    let calls = ex.sink.events.len() as u64;
    let failed = ex.sink.events.iter().filter(|e| !matches!(e.outcome, Outcome::Accepted(_))).count() as u64;
    (calls, failed)
}

// ---------------------------------------------------------------- C16

pub fn child_boxes(entry: &[u8], fixed: usize) -> Vec<([u8; 4], &[u8])> {
    // children of a sample entry: after 8-byte header + `fixed` bytes
    let mut out = Vec::new();
    let mut pos = 8 + fixed;
    while pos + 8 <= entry.len() {
        let sz = u32::from_be_bytes([entry[pos], entry[pos + 1], entry[pos + 2], entry[pos + 3]]) as usize;
        if sz < 8 || pos + sz > entry.len() {
            break;
        }
        let t = [entry[pos + 4], entry[pos + 5], entry[pos + 6], entry[pos + 7]];
        out.push((t, &entry[pos + 8..pos + sz]));
        pos += sz;
    }
    out
}

/// Parameter sets (first of each kind) of the first accepted frame, by the independent splitter.
fn first_parameter_sets(codec: VCodec, data: &[u8]) -> Vec<(u8, Vec<u8>)> {
    let units = crate::frames::annexb_units(data);
    let mut out: Vec<(u8, Vec<u8>)> = Vec::new();
    let want: &[u8] = match codec {
        VCodec::H264 => &[7, 8],
        VCodec::H265 => &[32, 33, 34],
        _ => &[],
    };
    for &w in want {
        for u in &units {
            let t = if codec == VCodec::H264 { u[0] & 0x1f } else { (u[0] >> 1) & 0x3f };
            if t == w {
                out.push((w, u.to_vec()));
                break;
            }
        }
    }
    out
}

/// Do the 16-bit SPS / PPS length fields of an avcC payload add up to the record exactly?
pub fn avcc_tiles(c: &[u8]) -> bool {
    if c.len() < 8 {
        return false;
    }
    let sl = u16::from_be_bytes([c[6], c[7]]) as usize;
    if c.len() < 8 + sl + 3 {
        return false;
    }
    let pl = u16::from_be_bytes([c[9 + sl], c[10 + sl]]) as usize;
    c.len() == 11 + sl + pl
}

/// Do the array and NAL-unit length fields of an hvcC payload add up to the record exactly?
pub fn hvcc_tiles(c: &[u8]) -> bool {
    if c.len() < 23 {
        return false;
    }
    let mut pos = 23;
    for _ in 0..c[22] {
        if pos + 3 > c.len() {
            return false;
        }
        let nn = u16::from_be_bytes([c[pos + 1], c[pos + 2]]);
        pos += 3;
        for _ in 0..nn {
            if pos + 2 > c.len() {
                return false;
            }
            pos += 2 + u16::from_be_bytes([c[pos], c[pos + 1]]) as usize;
            if pos > c.len() {
                return false;
            }
        }
    }
    pos == c.len()
}

pub fn c16_numeric(prop: &'static str, case: &ProgCase, lm: &LogicalMovie, bytes: &[u8]) -> Vec<Violation> {
    let mut out = Vec::new();
    let p = match parse_file(bytes) {
        Ok(p) => p,
        Err(e) => {
            out.push(v(prop, "box-size", normalise(&e), format!("declared box sizes do not tile the file: {}", e)));
            return out;
        }
    };
    let vcfg = match &case.cfg.video {
        Some(v) => v,
        None => return out,
    };
    // timing fields, exact in 128-bit arithmetic
    let mut totals: Vec<(String, i128)> = Vec::new();
    let mut elst_spans: Vec<Option<i128>> = Vec::new();
    for (name, t, want) in [("video", video_track(&p.movie), &lm.video), ("audio", audio_track(&p.movie), &lm.audio)] {
        let t = match t {
            Some(t) => t,
            None => continue,
        };
        if t.samples.len() != want.len() {
            out.push(v(prop, "sample-count", name, format!("{} track has {} samples, {} accepted", name, t.samples.len(), want.len())));
            return out;
        }
        let n = want.len();
        let exact = !want.iter().any(|s| s.pts.saturated || s.dts.saturated);
        let mut total: i128 = 0;
        for k in 0..n {
            let d = t.samples[k].duration as i128;
            total += d;
            if exact && k + 1 < n {
                let wd = want[k + 1].dts.exact as i128 - want[k].dts.exact as i128;
                let alt_ok = want[k + 1].dts.alt.is_some() || want[k].dts.alt.is_some();
                if d != wd && !(alt_ok && (d - wd).abs() <= 2) {
                    out.push(v(prop, "sample-duration", format!("{}:{}", name, if wd > u32::MAX as i128 { "wrapped" } else { "value" }), format!("{} sample {}: stts duration {} but decode-time difference is {}", name, k, d, wd)));
                    return out;
                }
            }
            if exact && name == "video" {
                let wc = want[k].pts.exact as i128 - want[k].dts.exact as i128;
                let alt_ok = want[k].pts.alt.is_some() || want[k].dts.alt.is_some();
                let c = t.samples[k].cts as i128;
                if c != wc && !(alt_ok && (c - wc).abs() <= 2) {
                    out.push(v(prop, "composition-offset", if wc.abs() > i32::MAX as i128 { "wrapped" } else { "value" }, format!("video sample {}: ctts offset {} but pts-dts = {}", k, c, wc)));
                    return out;
                }
            }
            let w = &want[k];
            if t.samples[k].size as usize != w.stored.len() {
                out.push(v(prop, "sample-size", name, format!("{} sample {}: stsz {} but stored payload is {} bytes", name, k, t.samples[k].size, w.stored.len())));
                return out;
            }
        }
        if t.mdhd_duration as i128 != total {
            out.push(v(
                prop,
                "media-duration",
                format!("{}:{}", name, if total > u32::MAX as i128 { "wrapped" } else { "value" }),
                format!("{} track: mdhd (version {}) declares duration {} but the sample durations sum to {}", name, t.mdhd_version, t.mdhd_duration, total),
            ));
            return out;
        }
        totals.push((name.to_string(), total));
        // with an edit list the track's span on the movie timeline is the sum of its edits (movie timescale)
        elst_spans.push(t.elst.as_ref().map(|e| e.iter().map(|x| x.0 as i128).sum::<i128>()));
    }
    // movie duration in the movie timescale: floor/round/ceil of the video or the longest track
    if p.movie.mvhd_timescale > 0 && !totals.is_empty() {
        let ts = p.movie.mvhd_timescale as i128;
        let mut ok = false;
        let mut cands = Vec::new();
        let longest = totals.iter().map(|t| t.1).max().unwrap();
        if elst_spans.iter().any(|e| e.is_some()) {
            for r in 0..3 {
                let span = |k: usize| -> i128 {
                    match elst_spans[k] {
                        Some(s) => s,
                        None => {
                            let num = totals[k].1 * ts;
                            [num / 90000, (num + 89999) / 90000, (num + 45000) / 90000][r]
                        }
                    }
                };
                let c = (0..totals.len()).map(span).max().unwrap();
                cands.push(c);
                if p.movie.mvhd_duration as i128 == c {
                    ok = true;
                }
            }
        }
        for base in [totals[0].1, longest] {
            let num = base * ts;
            let fl = num / 90000;
            let ce = (num + 89999) / 90000;
            let ro = (num + 45000) / 90000;
            for c in [fl, ce, ro] {
                cands.push(c);
                if p.movie.mvhd_duration as i128 == c {
                    ok = true;
                }
            }
        }
        if !ok {
            let wrapped = cands.iter().any(|c| *c > u32::MAX as i128);
            out.push(v(prop, "movie-duration", if wrapped { "wrapped" } else { "value" }, format!("mvhd (version {}) declares duration {} in timescale {}; the tracks imply one of {:?}", p.movie.mvhd_version, p.movie.mvhd_duration, ts, cands)));
            return out;
        }
    }
    // sample entries
    if let Some(t) = video_track(&p.movie) {
        if t.width.map(|w| w as u32) != Some(vcfg.width) || t.height.map(|h| h as u32) != Some(vcfg.height) {
            out.push(v(prop, "dimensions", "sample-entry", format!("visual sample entry says {:?}x{:?}, configured {}x{}", t.width, t.height, vcfg.width, vcfg.height)));
            return out;
        }
        // the track header states the presentation size as unsigned 16.16
        if let Some((tw, th)) = t.tkhd_tail {
            if vcfg.width <= 0xffff && vcfg.height <= 0xffff && (tw as u64 != (vcfg.width as u64) << 16 || th as u64 != (vcfg.height as u64) << 16) {
                out.push(v(prop, "dimensions", "tkhd", format!("tkhd states {}x{} (16.16: {:#x} / {:#x}), configured {}x{}", tw >> 16, th >> 16, tw, th, vcfg.width, vcfg.height)));
                return out;
            }
        }
        // the length fields inside avcC / hvcC must tile the record exactly, whatever sets it carries
        {
            let kids = child_boxes(&t.stsd_entry, 78);
            if let Some((_, c)) = kids.iter().find(|(t, _)| t == b"avcC") {
                let ok = avcc_tiles(c);
                if !ok {
                    out.push(v(prop, "parameter-set-length", "avcC:does-not-tile", format!("avcC ({} bytes): the declared SPS/PPS lengths do not add up to the record", c.len())));
                    return out;
                }
            }
            if let Some((_, c)) = kids.iter().find(|(t, _)| t == b"hvcC") {
                let ok = hvcc_tiles(c);
                if !ok {
                    out.push(v(prop, "parameter-set-length", "hvcC:does-not-tile", format!("hvcC ({} bytes): the declared parameter-set lengths do not add up to the record", c.len())));
                    return out;
                }
            }
        }
        // parameter-set lengths
        if let Some(first) = lm.video.first() {
            if let Some(Op::Video { data, .. } | Op::VideoDts { data, .. } | Op::EncVideo { data, .. }) = case.ops.get(first.op_index) {
                let sets = first_parameter_sets(vcfg.codec, &data.0);
                let kids = child_boxes(&t.stsd_entry, 78);
                match vcfg.codec {
                    VCodec::H264 => {
                        if let Some((_, c)) = kids.iter().find(|(t, _)| t == b"avcC") {
                            let ok = (|| -> Option<bool> {
                                if c.len() < 8 {
                                    return Some(false);
                                }
                                let sl = u16::from_be_bytes([c[6], c[7]]) as usize;
                                if c.len() < 8 + sl + 3 {
                                    return Some(false);
                                }
                                let pl = u16::from_be_bytes([c[9 + sl], c[10 + sl]]) as usize;
                                Some(c.len() == 11 + sl + pl && sets.len() == 2 && sl == sets[0].1.len() && pl == sets[1].1.len() && c[8..8 + sl] == sets[0].1[..] && c[11 + sl..] == sets[1].1[..])
                            })()
                            .unwrap_or(false);
                            if !ok {
                                out.push(v(prop, "parameter-set-length", if sets.iter().any(|s| s.1.len() > 65535) { "avcC:set-over-65535-bytes" } else { "avcC:value" }, format!("avcC ({} bytes) does not carry the first SPS ({} bytes) and PPS ({} bytes) with exact lengths", c.len(), sets.first().map(|s| s.1.len()).unwrap_or(0), sets.get(1).map(|s| s.1.len()).unwrap_or(0))));
                                return out;
                            }
                        }
                    }
                    VCodec::H265 => {
                        if let Some((_, c)) = kids.iter().find(|(t, _)| t == b"hvcC") {
                            // 22 fixed bytes, numOfArrays, then arrays: type(1) numNalus(2) [len(2) nal]*
                            let ok = (|| -> Option<bool> {
                                if c.len() < 23 {
                                    return Some(false);
                                }
                                let mut pos = 23;
                                let mut got: Vec<Vec<u8>> = Vec::new();
                                for _ in 0..c[22] {
                                    if pos + 3 > c.len() {
                                        return Some(false);
                                    }
                                    let nn = u16::from_be_bytes([c[pos + 1], c[pos + 2]]);
                                    pos += 3;
                                    for _ in 0..nn {
                                        if pos + 2 > c.len() {
                                            return Some(false);
                                        }
                                        let l = u16::from_be_bytes([c[pos], c[pos + 1]]) as usize;
                                        pos += 2;
                                        if pos + l > c.len() {
                                            return Some(false);
                                        }
                                        got.push(c[pos..pos + l].to_vec());
                                        pos += l;
                                    }
                                }
                                Some(pos == c.len() && got.len() == 3 && sets.len() == 3 && got.iter().zip(sets.iter()).all(|(a, b)| *a == b.1))
                            })()
                            .unwrap_or(false);
                            if !ok {
                                out.push(v(prop, "parameter-set-length", if sets.iter().any(|s| s.1.len() > 65535) { "hvcC:set-over-65535-bytes" } else { "hvcC:value" }, format!("hvcC ({} bytes) does not carry the first VPS/SPS/PPS ({:?} bytes) with exact lengths", c.len(), sets.iter().map(|s| s.1.len()).collect::<Vec<_>>())));
                                return out;
                            }
                        }
                    }
                    _ => {}
                }
            }
        }
    }
    if let (Some(t), Some(acfg)) = (audio_track(&p.movie), case.cfg.audio_effective()) {
        if t.channels != Some(acfg.channels) {
            out.push(v(prop, "channels", "sample-entry", format!("audio sample entry says {:?} channels, configured {}", t.channels, acfg.channels)));
            return out;
        }
        let want_rate: u64 = if acfg.codec == ACodec::Opus { 48000 } else { acfg.rate as u64 };
        let got = t.sample_rate_16_16.unwrap_or(0) as u64;
        if got != want_rate << 16 {
            out.push(v(prop, "sample-rate", if want_rate > 65535 { "rate-over-65535" } else { "value" }, format!("audio sample entry rate field {:#x} (= {} Hz), configured {} Hz", got, got >> 16, want_rate)));
            return out;
        }
        if acfg.codec == ACodec::Opus {
            let kids = child_boxes(&t.stsd_entry, 28);
            if let Some((_, c)) = kids.iter().find(|(t, _)| t == b"dOps") {
                if c.len() >= 2 && c[1] as u16 != acfg.channels {
                    out.push(v(prop, "channels", if acfg.channels > 255 { "dOps:over-255" } else { "dOps:value" }, format!("dOps OutputChannelCount {} but {} channels configured", c[1], acfg.channels)));
                    return out;
                }
            }
        }
    }
    out
}
