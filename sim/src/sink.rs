//! The simulated sink (seam V1). Every byte the library emits goes through
//! `SimSink::write`; the sink decides per call, from the case's fault plan,
//! whether to accept everything, part of the buffer, nothing, or to fail.

use crate::case::{ErrK, Fault, FaultPlan};
use std::io::{self, Write};
use std::sync::{Arc, Mutex};

#[derive(Clone, Debug, PartialEq, Eq)]
pub enum Outcome {
    Accepted(u32),
    Err(ErrK),
    Interrupted,
    Zero,
}

#[derive(Clone, Debug)]
pub struct SinkEvent {
    pub op: u32,
    pub call: u32,
    pub offset: u64,
    pub len: u32,
    pub outcome: Outcome,
}

#[derive(Default, Debug)]
pub struct SinkLog {
    pub events: Vec<SinkEvent>,
    pub bytes: Vec<u8>,
    pub flushes: u32,
    pub cur_op: u32,
    /// number of times each fault kind actually fired
    pub fired: std::collections::BTreeMap<&'static str, u64>,
    /// keep only counts, not bytes (for multi-GiB runs)
    pub counting_only: bool,
    pub accepted_total: u64,
    pub vectored_calls: u64,
    /// with `counting_only`: the accepted byte stream, run-length encoded (multi-GiB recordings are
    /// constant filler between short headers)
    pub rle: RleStore,
}

/// The accepted byte stream as literal pieces and runs of one byte value, in offset order.
#[derive(Default, Debug)]
pub struct RleStore {
    segs: Vec<RleSeg>,
    len: u64,
}

#[derive(Debug)]
enum RleSeg {
    Lit(u64, Vec<u8>),
    Run(u64, u8, u64),
}

impl RleSeg {
    fn start(&self) -> u64 {
        match self {
            RleSeg::Lit(o, _) | RleSeg::Run(o, _, _) => *o,
        }
    }
    fn len(&self) -> u64 {
        match self {
            RleSeg::Lit(_, b) => b.len() as u64,
            RleSeg::Run(_, _, n) => *n,
        }
    }
}

impl RleStore {
    const MIN_RUN: usize = 64;

    fn lit(&mut self, off: u64, b: &[u8]) {
        if b.is_empty() {
            return;
        }
        if let Some(RleSeg::Lit(o, v)) = self.segs.last_mut() {
            if *o + v.len() as u64 == off {
                v.extend_from_slice(b);
                return;
            }
        }
        self.segs.push(RleSeg::Lit(off, b.to_vec()));
    }

    fn run(&mut self, off: u64, byte: u8, n: u64) {
        if let Some(RleSeg::Run(o, b, m)) = self.segs.last_mut() {
            if *b == byte && *o + *m == off {
                *m += n;
                return;
            }
        }
        self.segs.push(RleSeg::Run(off, byte, n));
    }

    /// Appends `buf` (the stream is written front to back).
    pub fn push(&mut self, buf: &[u8]) {
        let base = self.len;
        let mut i = 0;
        let mut lit_start = 0;
        while i < buf.len() {
            let b = buf[i];
            let j = i + 1 + buf[i + 1..].iter().position(|&x| x != b).unwrap_or(buf.len() - i - 1);
            if j - i >= Self::MIN_RUN {
                let (ls, le) = (lit_start, i);
                self.lit(base + ls as u64, &buf[ls..le]);
                self.run(base + i as u64, b, (j - i) as u64);
                lit_start = j;
            }
            i = j;
        }
        self.lit(base + lit_start as u64, &buf[lit_start..]);
        self.len += buf.len() as u64;
    }

    fn first_overlapping(&self, off: u64) -> usize {
        // the last segment starting at or before `off`
        self.segs.partition_point(|s| s.start() <= off).saturating_sub(1)
    }

    /// `n` bytes at `off`, if the stream has them.
    pub fn read(&self, off: u64, n: usize) -> Option<Vec<u8>> {
        if off.checked_add(n as u64)? > self.len {
            return None;
        }
        let mut out = Vec::with_capacity(n);
        let mut k = self.first_overlapping(off);
        let mut pos = off;
        while out.len() < n {
            let s = self.segs.get(k)?;
            let from = pos - s.start();
            let take = ((s.len() - from) as usize).min(n - out.len());
            match s {
                RleSeg::Lit(_, b) => out.extend_from_slice(&b[from as usize..from as usize + take]),
                RleSeg::Run(_, byte, _) => out.resize(out.len() + take, *byte),
            }
            pos += take as u64;
            k += 1;
        }
        Some(out)
    }

    /// Does the stream hold exactly `data` at `off`?
    pub fn holds(&self, off: u64, data: &[u8]) -> bool {
        match off.checked_add(data.len() as u64) {
            Some(e) if e <= self.len => {}
            _ => return false,
        }
        let mut k = self.first_overlapping(off);
        let mut pos = off;
        let mut done = 0usize;
        while done < data.len() {
            let s = match self.segs.get(k) {
                Some(s) => s,
                None => return false,
            };
            let from = pos - s.start();
            let take = ((s.len() - from) as usize).min(data.len() - done);
            let want = &data[done..done + take];
            let same = match s {
                RleSeg::Lit(_, b) => &b[from as usize..from as usize + take] == want,
                RleSeg::Run(_, byte, _) => want.iter().all(|x| x == byte),
            };
            if !same {
                return false;
            }
            pos += take as u64;
            done += take;
            k += 1;
        }
        true
    }

    pub fn segments(&self) -> usize {
        self.segs.len()
    }
}

impl SinkLog {
    pub fn fatal_fault_seen(&self) -> bool {
        self.events.iter().any(|e| matches!(e.outcome, Outcome::Err(_) | Outcome::Zero))
    }
}

pub struct SimSink {
    log: Arc<Mutex<SinkLog>>,
    plan: FaultPlan,
    calls: u32,
    dead: Option<ErrK>,
    intr_left: u8,
    /// consecutive pattern-driven interruptions (bursts stay finite so that write_all terminates)
    consec_intr: u8,
    healed: bool,
    /// optional hook called on every write (scheduler yield point for S-CONC)
    pub yield_hook: Option<Arc<dyn Fn() + Send + Sync>>,
}

pub type LogHandle = Arc<Mutex<SinkLog>>;

impl SimSink {
    pub fn new(plan: FaultPlan) -> (SimSink, LogHandle) {
        let log = Arc::new(Mutex::new(SinkLog::default()));
        (
            SimSink {
                log: log.clone(),
                plan,
                calls: 0,
                dead: None,
                intr_left: 0,
                consec_intr: 0,
                healed: false,
                yield_hook: None,
            },
            log,
        )
    }
}

fn fire(log: &mut SinkLog, name: &'static str) {
    *log.fired.entry(name).or_insert(0) += 1;
}

/// EINTR as a file descriptor reports it (errno set) on even call numbers, as a kind-only error on odd ones.
fn eintr(call: u32) -> io::Error {
    if call % 2 == 0 {
        io::Error::from_raw_os_error(libc::EINTR)
    } else {
        io::Error::new(io::ErrorKind::Interrupted, "simulated EINTR")
    }
}

impl SimSink {
    /// One write call offering the concatenation of `parts` (one part for `write`, the gather list for
    /// `write_vectored`). The decision is taken on the total length; only the accepted prefix is copied.
    fn write_parts(&mut self, parts: &[&[u8]]) -> io::Result<usize> {
        if let Some(h) = &self.yield_hook {
            h();
        }
        self.calls += 1;
        let call = self.calls;
        let mut log = self.log.lock().unwrap();
        let op = log.cur_op;
        let offset = log.accepted_total;
        let total: usize = parts.iter().map(|p| p.len()).sum();
        let len = total.min(u32::MAX as usize) as u32;

        // healing
        if !self.healed {
            if let Some(h) = self.plan.heal_at_op {
                if op >= h {
                    self.healed = true;
                    self.dead = None;
                    self.intr_left = 0;
                    fire(&mut log, "heal");
                }
            }
        }

        let mut ev = |log: &mut SinkLog, outcome: Outcome| {
            log.events.push(SinkEvent { op, call, offset, len, outcome });
        };

        if let Some(k) = self.dead {
            ev(&mut log, Outcome::Err(k));
            fire(&mut log, "dead_sink_write");
            return Err(k.make());
        }
        if self.intr_left > 0 {
            self.intr_left -= 1;
            ev(&mut log, Outcome::Interrupted);
            fire(&mut log, "interrupted");
            return Err(eintr(call));
        }

        // how many bytes may still be accepted before the byte-offset death
        let mut cap: Option<u64> = None;
        if !self.healed {
            if let Some((b, k)) = self.plan.die_at_byte {
                if offset >= b {
                    self.dead = Some(k);
                    ev(&mut log, Outcome::Err(k));
                    fire(&mut log, "die_at_byte");
                    return Err(k.make());
                }
                cap = Some(b - offset);
            }
        }

        let mut fault: Option<Fault> = None;
        if !self.healed {
            for (c, f) in &self.plan.at_call {
                if *c == call {
                    fault = Some(*f);
                    break;
                }
            }
            if fault.is_none() && !self.plan.pattern.is_empty() {
                let p = self.plan.pattern[(call as usize - 1) % self.plan.pattern.len()];
                fault = match p {
                    1 => Some(Fault::Short1),
                    2 => Some(Fault::ShortHalf),
                    3 => Some(Fault::ShortAllButOne),
                    4 if self.consec_intr < 2 => Some(Fault::Interrupted(1)),
                    _ => None,
                };
                if matches!(fault, Some(Fault::Interrupted(_))) {
                    self.consec_intr += 1;
                } else {
                    self.consec_intr = 0;
                }
            }
        }

        let mut n = total;
        match fault {
            Some(Fault::ErrOnce(k)) => {
                ev(&mut log, Outcome::Err(k));
                fire(&mut log, "err_once");
                return Err(k.make());
            }
            Some(Fault::Die(k)) => {
                self.dead = Some(k);
                ev(&mut log, Outcome::Err(k));
                fire(&mut log, "die");
                return Err(k.make());
            }
            Some(Fault::Zero) => {
                if total != 0 {
                    ev(&mut log, Outcome::Zero);
                    fire(&mut log, "ok_zero");
                    return Ok(0);
                }
            }
            Some(Fault::Interrupted(k)) => {
                self.intr_left = k.saturating_sub(1);
                ev(&mut log, Outcome::Interrupted);
                fire(&mut log, "interrupted");
                return Err(eintr(call));
            }
            Some(Fault::Short1) => {
                if n > 1 {
                    n = 1;
                    fire(&mut log, "short_write");
                }
            }
            Some(Fault::ShortHalf) => {
                if n > 1 {
                    n /= 2;
                    fire(&mut log, "short_write");
                }
            }
            Some(Fault::ShortAllButOne) => {
                if n > 1 {
                    n -= 1;
                    fire(&mut log, "short_write");
                }
            }
            None => {}
        }
        if let Some(c) = cap {
            if (n as u64) > c {
                n = c as usize;
                fire(&mut log, "short_write_at_death_offset");
            }
        }
        let mut left = n;
        for p in parts {
            if left == 0 {
                break;
            }
            let take = left.min(p.len());
            if !log.counting_only {
                log.bytes.extend_from_slice(&p[..take]);
            } else {
                log.rle.push(&p[..take]);
            }
            left -= take;
        }
        log.accepted_total += n as u64;
        ev(&mut log, Outcome::Accepted(n as u32));
        Ok(n)
    }
}

impl Write for SimSink {
    fn write(&mut self, buf: &[u8]) -> io::Result<usize> {
        self.write_parts(&[buf])
    }

    fn flush(&mut self) -> io::Result<()> {
        self.log.lock().unwrap().flushes += 1;
        Ok(())
    }

    /// A native vectored write, like File's: one decision for the whole gather list, and a short
    /// write may stop anywhere, also strictly inside one of the buffers.
    fn write_vectored(&mut self, bufs: &[io::IoSlice<'_>]) -> io::Result<usize> {
        let total: usize = bufs.iter().map(|b| b.len()).sum();
        if bufs.len() <= 1 || total == 0 {
            return self.write(bufs.first().map(|b| &b[..]).unwrap_or(&[]));
        }
        self.log.lock().unwrap().vectored_calls += 1;
        let parts: Vec<&[u8]> = bufs.iter().map(|b| &b[..]).collect();
        self.write_parts(&parts)
    }
}

#[cfg(test)]
mod rle_tests {
    use super::RleStore;

    #[test]
    fn rle_round_trip() {
        let mut x: u64 = 88172645463325252;
        let mut next = move || {
            x ^= x << 13;
            x ^= x >> 7;
            x ^= x << 17;
            x
        };
        for _ in 0..200 {
            let mut all = Vec::new();
            let mut st = RleStore::default();
            for _ in 0..(next() % 8 + 1) {
                let mut w = Vec::new();
                for _ in 0..(next() % 6) {
                    if next() % 2 == 0 {
                        let n = (next() % 300) as usize;
                        let b = (next() % 3) as u8;
                        w.extend(std::iter::repeat(b).take(n));
                    } else {
                        let n = (next() % 40) as usize;
                        for _ in 0..n {
                            w.push((next() % 4) as u8);
                        }
                    }
                }
                st.push(&w);
                all.extend_from_slice(&w);
            }
            assert_eq!(st.read(0, all.len()).unwrap(), all);
            for _ in 0..50 {
                if all.is_empty() {
                    break;
                }
                let a = (next() as usize) % all.len();
                let n = (next() as usize) % (all.len() - a + 1);
                assert_eq!(st.read(a as u64, n).unwrap(), &all[a..a + n]);
                assert!(st.holds(a as u64, &all[a..a + n]));
                if n > 0 {
                    let mut d = all[a..a + n].to_vec();
                    let k = (next() as usize) % n;
                    d[k] ^= 0x40;
                    assert!(!st.holds(a as u64, &d));
                }
            }
            assert!(st.read(all.len() as u64, 1).is_none());
        }
    }
}
