//! The simulated sink (seam V1). Every byte the library emits goes through
//! `SimSink::write`; the sink decides per call, from the case's fault plan,
//! whether to accept everything, part of the buffer, nothing, or to fail.

use crate::case::{ErrK, Fault, FaultPlan};
use std::io::{self, Write};
use std::sync::{Arc, Mutex};

#[derive(Clone, Debug, PartialEq, Eq)]
pub enum Outcome {
    Accepted(u32),
    Err(ErrK),
    Interrupted,
    Zero,
}

#[derive(Clone, Debug)]
pub struct SinkEvent {
    pub op: u32,
    pub call: u32,
    pub offset: u64,
    pub len: u32,
    pub outcome: Outcome,
}

#[derive(Default, Debug)]
pub struct SinkLog {
    pub events: Vec<SinkEvent>,
    pub bytes: Vec<u8>,
    pub flushes: u32,
    pub cur_op: u32,
    /// number of times each fault kind actually fired
    pub fired: std::collections::BTreeMap<&'static str, u64>,
    /// keep only counts, not bytes (for multi-GiB runs)
    pub counting_only: bool,
    pub accepted_total: u64,
    pub vectored_calls: u64,
    /// with `counting_only`: writes of at most 1 MiB are still kept, as (offset, bytes)
    pub small_writes: Vec<(u64, Vec<u8>)>,
}

impl SinkLog {
    pub fn fatal_fault_seen(&self) -> bool {
        self.events.iter().any(|e| matches!(e.outcome, Outcome::Err(_) | Outcome::Zero))
    }
}

pub struct SimSink {
    log: Arc<Mutex<SinkLog>>,
    plan: FaultPlan,
    calls: u32,
    dead: Option<ErrK>,
    intr_left: u8,
    /// consecutive pattern-driven interruptions (bursts stay finite so that write_all terminates)
    consec_intr: u8,
    healed: bool,
    /// optional hook called on every write (scheduler yield point for S-CONC)
    pub yield_hook: Option<Arc<dyn Fn() + Send + Sync>>,
}

pub type LogHandle = Arc<Mutex<SinkLog>>;

impl SimSink {
    pub fn new(plan: FaultPlan) -> (SimSink, LogHandle) {
        let log = Arc::new(Mutex::new(SinkLog::default()));
        (
            SimSink {
                log: log.clone(),
                plan,
                calls: 0,
                dead: None,
                intr_left: 0,
                consec_intr: 0,
                healed: false,
                yield_hook: None,
            },
            log,
        )
    }
}

fn fire(log: &mut SinkLog, name: &'static str) {
    *log.fired.entry(name).or_insert(0) += 1;
}

impl Write for SimSink {
    fn write(&mut self, buf: &[u8]) -> io::Result<usize> {
        if let Some(h) = &self.yield_hook {
            h();
        }
        self.calls += 1;
        let call = self.calls;
        let mut log = self.log.lock().unwrap();
        let op = log.cur_op;
        let offset = log.accepted_total;
        let len = buf.len() as u32;

        // healing
        if !self.healed {
            if let Some(h) = self.plan.heal_at_op {
                if op >= h {
                    self.healed = true;
                    self.dead = None;
                    self.intr_left = 0;
                    fire(&mut log, "heal");
                }
            }
        }

        let mut ev = |log: &mut SinkLog, outcome: Outcome| {
            log.events.push(SinkEvent { op, call, offset, len, outcome });
        };

        if let Some(k) = self.dead {
            ev(&mut log, Outcome::Err(k));
            fire(&mut log, "dead_sink_write");
            return Err(k.make());
        }
        if self.intr_left > 0 {
            self.intr_left -= 1;
            ev(&mut log, Outcome::Interrupted);
            fire(&mut log, "interrupted");
            return Err(io::Error::new(io::ErrorKind::Interrupted, "simulated EINTR"));
        }

        // how many bytes may still be accepted before the byte-offset death
        let mut cap: Option<u64> = None;
        if !self.healed {
            if let Some((b, k)) = self.plan.die_at_byte {
                if offset >= b {
                    self.dead = Some(k);
                    ev(&mut log, Outcome::Err(k));
                    fire(&mut log, "die_at_byte");
                    return Err(k.make());
                }
                cap = Some(b - offset);
            }
        }

        let mut fault: Option<Fault> = None;
        if !self.healed {
            for (c, f) in &self.plan.at_call {
                if *c == call {
                    fault = Some(*f);
                    break;
                }
            }
            if fault.is_none() && !self.plan.pattern.is_empty() {
                let p = self.plan.pattern[(call as usize - 1) % self.plan.pattern.len()];
                fault = match p {
                    1 => Some(Fault::Short1),
                    2 => Some(Fault::ShortHalf),
                    3 => Some(Fault::ShortAllButOne),
                    4 if self.consec_intr < 2 => Some(Fault::Interrupted(1)),
                    _ => None,
                };
                if matches!(fault, Some(Fault::Interrupted(_))) {
                    self.consec_intr += 1;
                } else {
                    self.consec_intr = 0;
                }
            }
        }

        let mut n = buf.len();
        match fault {
            Some(Fault::ErrOnce(k)) => {
                ev(&mut log, Outcome::Err(k));
                fire(&mut log, "err_once");
                return Err(k.make());
            }
            Some(Fault::Die(k)) => {
                self.dead = Some(k);
                ev(&mut log, Outcome::Err(k));
                fire(&mut log, "die");
                return Err(k.make());
            }
            Some(Fault::Zero) => {
                if !buf.is_empty() {
                    ev(&mut log, Outcome::Zero);
                    fire(&mut log, "ok_zero");
                    return Ok(0);
                }
            }
            Some(Fault::Interrupted(k)) => {
                self.intr_left = k.saturating_sub(1);
                ev(&mut log, Outcome::Interrupted);
                fire(&mut log, "interrupted");
                return Err(io::Error::new(io::ErrorKind::Interrupted, "simulated EINTR"));
            }
            Some(Fault::Short1) => {
                if n > 1 {
                    n = 1;
                    fire(&mut log, "short_write");
                }
            }
            Some(Fault::ShortHalf) => {
                if n > 1 {
                    n /= 2;
                    fire(&mut log, "short_write");
                }
            }
            Some(Fault::ShortAllButOne) => {
                if n > 1 {
                    n -= 1;
                    fire(&mut log, "short_write");
                }
            }
            None => {}
        }
        if let Some(c) = cap {
            if (n as u64) > c {
                n = c as usize;
                fire(&mut log, "short_write_at_death_offset");
            }
        }
        if !log.counting_only {
            log.bytes.extend_from_slice(&buf[..n]);
        } else if n <= (1 << 20) {
            log.small_writes.push((offset, buf[..n].to_vec()));
        }
        log.accepted_total += n as u64;
        ev(&mut log, Outcome::Accepted(n as u32));
        Ok(n)
    }

    fn flush(&mut self) -> io::Result<()> {
        self.log.lock().unwrap().flushes += 1;
        Ok(())
    }

    /// A native vectored write, like File's: one decision for the whole gather list, and a short
    /// write may stop anywhere, also strictly inside one of the buffers.
    fn write_vectored(&mut self, bufs: &[io::IoSlice<'_>]) -> io::Result<usize> {
        let total: usize = bufs.iter().map(|b| b.len()).sum();
        if bufs.len() <= 1 || total == 0 {
            return self.write(bufs.first().map(|b| &b[..]).unwrap_or(&[]));
        }
        let mut flat = Vec::with_capacity(total);
        for b in bufs {
            flat.extend_from_slice(b);
        }
        self.log.lock().unwrap().vectored_calls += 1;
        self.write(&flat)
    }
}
