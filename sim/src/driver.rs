//! Batch driver: spawns worker processes of this binary, merges their reports,
//! handles known findings, minimises and writes replay files and evidence.

use crate::case::Replay;
use crate::checks::{self, AnyCase, CheckDef, RunStats, Tier};
use crate::oracle::Violation;
use crate::rng::{Hasher64, Rng};
use serde::{Deserialize, Serialize};
use std::collections::{BTreeMap, BTreeSet};
use std::io::Write;
use std::os::unix::fs::FileExt;
use std::path::{Path, PathBuf};
use std::process::{Command, Stdio};
use std::sync::atomic::{AtomicU64, Ordering};
use std::time::Instant;

pub const VERIF: &str = "/verif";

#[derive(Serialize, Deserialize, Clone, Debug)]
pub struct VRec {
    pub scenario: String,
    pub run: u64,
    pub property: String,
    pub class: String,
    pub key: String,
    pub detail: String,
    pub case: serde_json::Value,
    pub count: u64,
}

#[derive(Serialize, Deserialize, Default, Debug)]
pub struct WorkerReport {
    pub runs: u64,
    pub evaluations: u64,
    pub nontrivial: Vec<u64>,
    pub states: Vec<u64>,
    pub transitions: Vec<u64>,
    pub fired: BTreeMap<String, u64>,
    pub counters: BTreeMap<String, u64>,
    pub violations: Vec<VRec>,
    pub samples: Vec<serde_json::Value>,
    pub media_secs: f64,
    pub trace_hashes: Vec<(String, u64, u64)>,
    pub clock_jump_min: i64,
    pub clock_jump_max: i64,
}

// ---------------------------------------------------------------- worker

static CUR_RUN: AtomicU64 = AtomicU64::new(u64::MAX);
static CUR_START_MS: AtomicU64 = AtomicU64::new(0);

fn mono_ms() -> u64 {
    let mut ts = libc::timespec { tv_sec: 0, tv_nsec: 0 };
    // raw syscall: never goes through the simulated clock seam
    unsafe {
        libc::syscall(libc::SYS_clock_gettime, libc::CLOCK_MONOTONIC, &mut ts as *mut libc::timespec);
    }
    ts.tv_sec as u64 * 1000 + ts.tv_nsec as u64 / 1_000_000
}

pub fn mono_secs_f64() -> f64 {
    mono_ms() as f64 / 1000.0
}

pub struct WorkerArgs {
    pub id: String,
    pub tier: Tier,
    pub seed: u64,
    pub start: u64,
    pub stride: u64,
    pub heartbeat: Option<PathBuf>,
    pub only_scenario: Option<String>,
    pub only_run: Option<u64>,
    pub only_first: Option<u64>,
    pub trace_first: u64,
    pub watchdog_secs: u64,
}

pub fn set_rlimit_as(bytes: u64) {
    unsafe {
        let lim = libc::rlimit { rlim_cur: bytes, rlim_max: bytes };
        libc::setrlimit(libc::RLIMIT_AS, &lim);
    }
}

pub fn worker_main(a: WorkerArgs) -> i32 {
    let def = match checks::find(&a.id) {
        Some(d) => d,
        None => {
            eprintln!("unknown check {}", a.id);
            return 2;
        }
    };
    crate::exec::install_panic_hook();
    let hb = a.heartbeat.as_ref().and_then(|p| std::fs::OpenOptions::new().create(true).write(true).truncate(true).open(p).ok());
    // watchdog
    let wd = a.watchdog_secs;
    std::thread::spawn(move || loop {
        std::thread::sleep(std::time::Duration::from_millis(500));
        let r = CUR_RUN.load(Ordering::SeqCst);
        if r == u64::MAX {
            continue;
        }
        let st = CUR_START_MS.load(Ordering::SeqCst);
        if mono_ms().saturating_sub(st) > wd * 1000 {
            eprintln!("WATCHDOG run={}", r);
            std::process::exit(3);
        }
    });

    let mut rep = WorkerReport::default();
    rep.clock_jump_min = i64::MAX;
    rep.clock_jump_max = i64::MIN;
    let mut nontrivial: BTreeSet<u64> = BTreeSet::new();
    let mut states: BTreeSet<u64> = BTreeSet::new();
    let mut transitions: BTreeSet<u64> = BTreeSet::new();
    let mut viol: BTreeMap<(String, String), VRec> = BTreeMap::new();
    let mut global_idx: u64 = 0;
    for (scenario, count) in (def.scenarios)(a.tier) {
        if let Some(s) = &a.only_scenario {
            if s != scenario {
                global_idx += count;
                continue;
            }
        }
        let mut i = a.start;
        let limit = a.only_first.map(|f| f.min(count)).unwrap_or(count);
        while i < limit {
            if let Some(r) = a.only_run {
                if i != r {
                    i += a.stride;
                    continue;
                }
            }
            let gi = global_idx + i;
            CUR_START_MS.store(mono_ms(), Ordering::SeqCst);
            CUR_RUN.store(gi, Ordering::SeqCst);
            if let Some(f) = &hb {
                let line = format!("{:<24} {:>12}\n", scenario, i);
                let _ = f.write_at(line.as_bytes(), 0);
            }
            let mut rng = Rng::for_run(a.seed, &format!("{}:{}", def.id, scenario), i);
            let case = (def.gen)(scenario, &mut rng, a.tier, i);
            let mut st = RunStats::default();
            let vs = (def.eval)(scenario, &case, &mut st, a.tier);
            rep.runs += 1;
            rep.evaluations += st.evaluations.max(1);
            if let Some(h) = st.nontrivial {
                nontrivial.insert(h);
            }
            for h in st.nontrivial_many.drain(..) {
                nontrivial.insert(h);
            }
            for s in st.states.drain(..) {
                states.insert(s);
            }
            for s in st.transitions.drain(..) {
                transitions.insert(s);
            }
            for (k, n) in st.fired.iter() {
                *rep.fired.entry(k.to_string()).or_insert(0) += n;
            }
            for (k, n) in st.counters.iter() {
                *rep.counters.entry(k.to_string()).or_insert(0) += n;
            }
            rep.media_secs += st.media_secs;
            if st.clock_jumps.0 <= st.clock_jumps.1 {
                rep.clock_jump_min = rep.clock_jump_min.min(st.clock_jumps.0);
                rep.clock_jump_max = rep.clock_jump_max.max(st.clock_jumps.1);
            }
            if i < a.trace_first {
                rep.trace_hashes.push((scenario.to_string(), i, st.trace_hash));
            }
            if rep.samples.len() < 2 && st.nontrivial.is_some() && a.start == 0 {
                rep.samples.push(checks::sample_view(scenario, &case));
            }
            for vi in vs {
                let k = (vi.class.clone(), vi.key.clone());
                match viol.get_mut(&k) {
                    Some(r) => r.count += 1,
                    None => {
                        let case_json = match st.violating_case.take() {
                            Some(c) => c,
                            None => serde_json::to_value(&case).unwrap(),
                        };
                        viol.insert(
                            k,
                            VRec { scenario: scenario.to_string(), run: i, property: vi.property.to_string(), class: vi.class, key: vi.key, detail: vi.detail, case: case_json, count: 1 },
                        );
                    }
                }
            }
            i += a.stride;
        }
        global_idx += count;
    }
    CUR_RUN.store(u64::MAX, Ordering::SeqCst);
    rep.nontrivial = nontrivial.into_iter().collect();
    rep.states = states.into_iter().collect();
    rep.transitions = transitions.into_iter().collect();
    rep.violations = viol.into_values().collect();
    let out = serde_json::to_vec(&rep).unwrap();
    let stdout = std::io::stdout();
    let mut l = stdout.lock();
    let _ = l.write_all(&out);
    let _ = l.flush();
    0
}

// ---------------------------------------------------------------- known findings

#[derive(Serialize, Deserialize, Clone, Debug)]
pub struct Finding {
    pub property: String,
    pub class: String,
    pub key: String,
    /// "open" or "fixed"
    pub status: String,
    #[serde(default)]
    pub commit: Option<String>,
    pub what: String,
    #[serde(default)]
    pub replay: Option<String>,
}

#[derive(Serialize, Deserialize, Clone, Debug, Default)]
pub struct Findings {
    pub findings: Vec<Finding>,
}

pub fn load_findings() -> Findings {
    let p = Path::new(VERIF).join("known_findings.json");
    match std::fs::read(&p) {
        Ok(b) => serde_json::from_slice(&b).unwrap_or_else(|e| {
            eprintln!("HARNESS ERROR: known_findings.json does not parse: {}", e);
            std::process::exit(2);
        }),
        Err(_) => Findings::default(),
    }
}

// ---------------------------------------------------------------- driver

fn self_exe() -> PathBuf {
    std::env::current_exe().expect("current_exe")
}

struct Spawned {
    child: std::process::Child,
    hb: PathBuf,
    start: u64,
}

fn spawn_worker(id: &str, tier: Tier, seed: u64, start: u64, stride: u64, hb: &Path, extra: &[String]) -> std::io::Result<std::process::Child> {
    let mut c = Command::new(self_exe());
    c.arg("--worker").arg(id).arg(tier.name()).arg(seed.to_string()).arg(start.to_string()).arg(stride.to_string()).arg(hb);
    for e in extra {
        c.arg(e);
    }
    c.stdin(Stdio::null()).stdout(Stdio::piped()).stderr(Stdio::piped());
    c.spawn()
}

pub struct Merged {
    pub rep: WorkerReport,
    /// (scenario, run, kind) of worker deaths/hangs
    pub deaths: Vec<(String, u64, String)>,
}

fn read_hb(p: &Path) -> Option<(String, u64)> {
    let s = std::fs::read_to_string(p).ok()?;
    let mut it = s.split_whitespace();
    let sc = it.next()?.to_string();
    let run = it.next()?.parse().ok()?;
    Some((sc, run))
}

pub fn run_batch(def: &CheckDef, tier: Tier, seed: u64, workers: u64, extra: &[String]) -> Result<Merged, String> {
    let work = Path::new(VERIF).join("work");
    std::fs::create_dir_all(&work).map_err(|e| e.to_string())?;
    let mut sp: Vec<Spawned> = Vec::new();
    for w in 0..workers {
        let hb = work.join(format!("hb-{}-{}-{}", def.id, std::process::id(), w));
        let child = spawn_worker(def.id, tier, seed, w, workers, &hb, extra).map_err(|e| format!("spawn: {}", e))?;
        sp.push(Spawned { child, hb, start: w });
    }
    let mut merged = WorkerReport::default();
    merged.clock_jump_min = i64::MAX;
    merged.clock_jump_max = i64::MIN;
    let mut deaths = Vec::new();
    let mut nontrivial: BTreeSet<u64> = BTreeSet::new();
    let mut states: BTreeSet<u64> = BTreeSet::new();
    let mut transitions: BTreeSet<u64> = BTreeSet::new();
    let mut viol: BTreeMap<(String, String), VRec> = BTreeMap::new();
    // read all outputs concurrently (threads) so that no pipe fills up
    let mut handles = Vec::new();
    for s in sp {
        handles.push(std::thread::spawn(move || {
            let Spawned { child, hb, start } = s;
            let out = child.wait_with_output();
            (out, hb, start)
        }));
    }
    for h in handles {
        let (out, hb, _start) = h.join().map_err(|_| "join".to_string())?;
        let out = out.map_err(|e| e.to_string())?;
        let code = out.status.code();
        if code == Some(0) {
            let r: WorkerReport = serde_json::from_slice(&out.stdout).map_err(|e| format!("worker report does not parse: {}", e))?;
            merged.runs += r.runs;
            merged.evaluations += r.evaluations;
            merged.media_secs += r.media_secs;
            merged.clock_jump_min = merged.clock_jump_min.min(r.clock_jump_min);
            merged.clock_jump_max = merged.clock_jump_max.max(r.clock_jump_max);
            nontrivial.extend(r.nontrivial);
            states.extend(r.states);
            transitions.extend(r.transitions);
            for (k, n) in r.fired {
                *merged.fired.entry(k).or_insert(0) += n;
            }
            for (k, n) in r.counters {
                *merged.counters.entry(k).or_insert(0) += n;
            }
            merged.trace_hashes.extend(r.trace_hashes);
            if merged.samples.len() < 3 {
                merged.samples.extend(r.samples);
            }
            for v in r.violations {
                let k = (v.class.clone(), v.key.clone());
                match viol.get_mut(&k) {
                    Some(e) => {
                        e.count += v.count;
                        if (v.scenario.as_str(), v.run) < (e.scenario.as_str(), e.run) {
                            let c = e.count;
                            *e = v;
                            e.count = c;
                        }
                    }
                    None => {
                        viol.insert(k, v);
                    }
                }
            }
        } else {
            let kind = if code == Some(3) {
                "hang (watchdog)".to_string()
            } else {
                format!("process death ({:?}; {})", out.status, String::from_utf8_lossy(&out.stderr).lines().last().unwrap_or(""))
            };
            match read_hb(&hb) {
                Some((sc, run)) => deaths.push((sc, run, kind)),
                None => return Err(format!("worker died without heartbeat: {} / stderr: {}", kind, String::from_utf8_lossy(&out.stderr))),
            }
        }
        let _ = std::fs::remove_file(&hb);
    }
    merged.nontrivial = nontrivial.into_iter().collect();
    merged.states = states.into_iter().collect();
    merged.transitions = transitions.into_iter().collect();
    merged.violations = viol.into_values().collect();
    merged.samples.truncate(3);
    Ok(Merged { rep: merged, deaths })
}

fn slug(s: &str) -> String {
    let mut o: String = s.chars().map(|c| if c.is_ascii_alphanumeric() { c.to_ascii_lowercase() } else { '-' }).collect();
    while o.contains("--") {
        o = o.replace("--", "-");
    }
    o.trim_matches('-').chars().take(60).collect()
}

pub fn write_replay(def: &CheckDef, seed: u64, v: &VRec, minimised: bool, original_ops: usize) -> PathBuf {
    let dir = Path::new(VERIF).join("replays").join(def.id);
    let _ = std::fs::create_dir_all(&dir);
    let mut h = Hasher64::new();
    h.str(&v.class);
    h.str(&v.key);
    let name = format!("{}-{:08x}-s{}-r{}.json", slug(&v.class), h.finish() as u32, seed, v.run);
    let p = dir.join(name);
    let r = Replay {
        property: v.property.clone(),
        class: v.class.clone(),
        key: v.key.clone(),
        detail: v.detail.clone(),
        seed,
        run: v.run,
        scenario: v.scenario.clone(),
        case: v.case.clone(),
        minimised,
        original_ops,
    };
    std::fs::write(&p, serde_json::to_vec_pretty(&r).unwrap()).expect("write replay");
    p
}

/// Evaluate one explicit case in this process; returns the violations.
pub fn eval_case(def: &CheckDef, scenario: &str, case: &AnyCase, tier: Tier) -> Vec<Violation> {
    let mut st = RunStats::default();
    (def.eval)(scenario, case, &mut st, tier)
}

pub fn replay_main(id: &str, path: &str) -> i32 {
    let def = match checks::find(id) {
        Some(d) => d,
        None => {
            eprintln!("unknown check {}", id);
            return 2;
        }
    };
    let bytes = match std::fs::read(path) {
        Ok(b) => b,
        Err(e) => {
            eprintln!("cannot read {}: {}", path, e);
            return 2;
        }
    };
    let r: Replay = match serde_json::from_slice(&bytes) {
        Ok(r) => r,
        Err(e) => {
            eprintln!("replay file does not parse: {}", e);
            return 2;
        }
    };
    let case: AnyCase = match serde_json::from_value(r.case.clone()) {
        Ok(c) => c,
        Err(e) => {
            eprintln!("replay case does not parse: {}", e);
            return 2;
        }
    };
    crate::exec::install_panic_hook();
    println!("REPLAY property={} scenario={} expecting class={} key={}", def.id, r.scenario, r.class, r.key);
    let vs = eval_case(def, &r.scenario, &case, Tier::Quick);
    let mut hit = false;
    for vv in &vs {
        println!("  violation class={} key={} :: {}", vv.class, vv.key, vv.detail);
        if vv.class == r.class && vv.key == r.key {
            hit = true;
        }
    }
    if hit {
        println!("VIOLATION property={} replay={}", def.id, path);
        1
    } else if vs.is_empty() {
        println!("REPLAY-CLEAN property={} (the recorded violation does not reproduce on this tree)", def.id);
        0
    } else {
        println!("REPLAY-DIFFERENT property={} (other violations reproduce)", def.id);
        println!("VIOLATION property={} replay={}", def.id, path);
        1
    }
}

fn known_match<'a>(f: &'a Findings, prop: &str, class: &str, key: &str) -> Option<&'a Finding> {
    f.findings.iter().find(|x| x.status == "open" && x.property == prop && x.class == class && x.key == key)
}

pub fn driver_main(id: &str, tier: Tier) -> i32 {
    let def = match checks::find(id) {
        Some(d) => d,
        None => {
            eprintln!("unknown check {}", id);
            return 2;
        }
    };
    let seed: u64 = std::env::var("VERIF_SEED").ok().and_then(|s| s.parse().ok()).unwrap_or(1);
    let workers: u64 = std::env::var("VERIF_WORKERS").ok().and_then(|s| s.parse().ok()).unwrap_or_else(|| std::thread::available_parallelism().map(|n| n.get() as u64).unwrap_or(4));
    println!("VERIF_SEED={} check={} tier={} workers={}", seed, id, tier.name(), workers);
    let t0 = Instant::now();
    let findings = load_findings();
    crate::exec::install_panic_hook();

    // 1. replay open findings of this property
    let mut known_lines = Vec::new();
    for f in findings.findings.iter().filter(|f| f.property == id && f.status == "open") {
        if let Some(rp) = &f.replay {
            let p = Path::new(VERIF).join(rp);
            let ok = std::fs::read(&p).ok().and_then(|b| serde_json::from_slice::<Replay>(&b).ok()).and_then(|r| {
                let case: AnyCase = serde_json::from_value(r.case.clone()).ok()?;
                let vs = eval_case(def, &r.scenario, &case, tier);
                Some(vs.iter().any(|v| v.class == f.class && v.key == f.key))
            });
            match ok {
                Some(true) => {
                    let l = format!("KNOWN-FINDING: property={} {} [{} / {}]", id, f.what, f.class, f.key);
                    println!("{}", l);
                    known_lines.push(l);
                }
                Some(false) => println!("note: listed finding no longer reproduces: {} / {}", f.class, f.key),
                None => {
                    eprintln!("HARNESS ERROR: cannot replay finding file {}", rp);
                    return 2;
                }
            }
        }
    }

    // 2. exploration
    let extra: Vec<String> = vec![format!("--trace-first={}", 64)];
    let merged = match run_batch(def, tier, seed, workers, &extra) {
        Ok(m) => m,
        Err(e) => {
            eprintln!("HARNESS ERROR: {}", e);
            return 2;
        }
    };
    // determinism sample: the first 64 runs of every scenario again, in one fresh process
    let det = match run_batch(def, tier, seed, 1, &[format!("--trace-first={}", 64), "--only-first=64".to_string()]) {
        Ok(m) => m,
        Err(e) => {
            eprintln!("HARNESS ERROR (determinism pass): {}", e);
            return 2;
        }
    };
    let mut a: Vec<_> = merged.rep.trace_hashes.clone();
    let mut b: Vec<_> = det.rep.trace_hashes.clone();
    a.sort();
    b.sort();
    let det_pairs = a.len().min(b.len()) as u64;
    if a != b {
        let diff = a.iter().zip(b.iter()).find(|(x, y)| x != y);
        eprintln!("HARNESS ERROR: nondeterminism: event-log hashes differ between two executions: {:?}", diff);
        return 2;
    }

    let mut new_violations: Vec<VRec> = Vec::new();
    let mut known_seen: BTreeMap<String, u64> = BTreeMap::new();
    for v in &merged.rep.violations {
        if let Some(f) = known_match(&findings, id, &v.class, &v.key) {
            *known_seen.entry(format!("{} / {}", f.class, f.key)).or_insert(0) += v.count;
        } else {
            new_violations.push(v.clone());
        }
    }
    // process deaths / hangs
    for (sc, run, kind) in &merged.deaths {
        // confirm alone
        let confirm = run_batch(def, tier, seed, 1, &[format!("--only-scenario={}", sc), format!("--only-run={}", run)]);
        let confirmed = match &confirm {
            Ok(m) => !m.deaths.is_empty(),
            Err(_) => true,
        };
        let mut rng = Rng::for_run(seed, &format!("{}:{}", def.id, sc), *run);
        let case = (def.gen)(sc, &mut rng, tier, *run);
        let class = format!("{}/process-death-or-hang", id);
        let key = slug(kind.split('(').next().unwrap_or("death"));
        let rec = VRec {
            scenario: sc.clone(),
            run: *run,
            property: id.to_string(),
            class: class.clone(),
            key: key.clone(),
            detail: format!("worker process ended abnormally while executing run {} of scenario {}: {} (confirmed alone: {})", run, sc, kind, confirmed),
            case: serde_json::to_value(&case).unwrap(),
            count: 1,
        };
        if known_match(&findings, id, &class, &key).is_some() {
            *known_seen.entry(format!("{} / {}", class, key)).or_insert(0) += 1;
        } else {
            new_violations.push(rec);
        }
    }

    // 3. minimise + report
    new_violations.sort_by(|a, b| (a.scenario.as_str(), a.run, a.class.as_str()).cmp(&(b.scenario.as_str(), b.run, b.class.as_str())));
    let mut violation_lines = Vec::new();
    for v in new_violations.iter().take(12) {
        let (mv, minimised, orig) = if v.class.ends_with("process-death-or-hang") { (v.clone(), false, 0) } else { minimise(def, v, tier) };
        let p = write_replay(def, seed, &mv, minimised, orig);
        println!("violation class={} key={} seed={} scenario={} run={} (seen {}x): {}", mv.class, mv.key, seed, mv.scenario, mv.run, v.count, mv.detail);
        let line = format!("VIOLATION property={} replay={}", id, p.display());
        println!("{}", line);
        violation_lines.push(line);
    }
    if new_violations.len() > 12 {
        println!("({} further violation classes not written out)", new_violations.len() - 12);
    }

    // 4. evidence
    let wall = t0.elapsed().as_secs_f64();
    let runs_per_hour = if wall > 0.0 { merged.rep.runs as f64 / wall * 3600.0 } else { 0.0 };
    let never_fired: Vec<&str> = def.fault_kinds.iter().copied().filter(|k| merged.rep.fired.get(*k).copied().unwrap_or(0) == 0).collect();
    let ev = serde_json::json!({
        "property_id": id,
        "tier": tier.name(),
        "seed": seed,
        "level": def.level,
        "coverage": {
            "evaluations": merged.rep.evaluations,
            "distinct_nontrivial": merged.rep.nontrivial.len(),
            "rule": def.rule,
            "samples": merged.rep.samples,
            "exhaustive": def.exhaustive_quick && tier == Tier::Quick && new_violations.is_empty(),
            "simulated_runs": merged.rep.runs,
            "runs_per_hour": runs_per_hour.round(),
            "seeds_per_hour": runs_per_hour.round(),
            "simulated_media_seconds": merged.rep.media_secs,
            "clock_jump_range_secs": if merged.rep.clock_jump_min <= merged.rep.clock_jump_max { serde_json::json!([merged.rep.clock_jump_min, merged.rep.clock_jump_max]) } else { serde_json::Value::Null },
            "fault_kinds_fired": merged.rep.fired,
            "fault_kinds_never_fired": never_fired,
            "distinct_abstract_states": merged.rep.states.len(),
            "distinct_abstract_transitions": merged.rep.transitions.len(),
            "counters": merged.rep.counters,
            "determinism_pairs_compared": det_pairs,
            "components_real": def.real,
            "components_stubbed": def.stubbed,
            "known_findings_seen": known_seen,
            "known_finding_lines": known_lines,
            "workers": workers,
            "scenarios": (def.scenarios)(tier).iter().map(|(n, c)| serde_json::json!({"name": n, "runs": c})).collect::<Vec<_>>(),
        },
        "assumptions": def.assumptions,
        "wall_s": wall,
        "violations": new_violations.len(),
    });
    let evdir = Path::new(VERIF).join("evidence");
    let _ = std::fs::create_dir_all(&evdir);
    if let Err(e) = std::fs::write(evdir.join(format!("{}.json", id)), serde_json::to_vec_pretty(&ev).unwrap()) {
        eprintln!("HARNESS ERROR: cannot write evidence: {}", e);
        return 2;
    }
    println!(
        "summary: runs={} evaluations={} distinct_nontrivial={} states={} wall={:.1}s known_seen={} new_violations={}",
        merged.rep.runs,
        merged.rep.evaluations,
        merged.rep.nontrivial.len(),
        merged.rep.states.len(),
        wall,
        known_seen.len(),
        new_violations.len()
    );
    if new_violations.is_empty() {
        0
    } else {
        1
    }
}

// ---------------------------------------------------------------- minimisation

fn still_fails(def: &CheckDef, scenario: &str, case: &AnyCase, class: &str, key: &str, tier: Tier) -> Option<Violation> {
    let r = std::panic::catch_unwind(std::panic::AssertUnwindSafe(|| eval_case(def, scenario, case, tier)));
    match r {
        Ok(vs) => vs.into_iter().find(|v| v.class == class && v.key == key),
        Err(_) => None,
    }
}

pub fn minimise(def: &CheckDef, v: &VRec, tier: Tier) -> (VRec, bool, usize) {
    let case: AnyCase = match serde_json::from_value(v.case.clone()) {
        Ok(c) => c,
        Err(_) => return (v.clone(), false, 0),
    };
    let orig = case.size();
    // the violation must reproduce in this process first
    let first = match still_fails(def, &v.scenario, &case, &v.class, &v.key, tier) {
        Some(x) => x,
        None => return (v.clone(), false, orig),
    };
    let mut best = case;
    let mut best_v = first;
    let deadline = Instant::now() + std::time::Duration::from_secs(20);
    let mut progress = true;
    let mut rounds = 0;
    while progress && Instant::now() < deadline && rounds < 40 {
        progress = false;
        rounds += 1;
        for cand in best.shrink_candidates() {
            if Instant::now() >= deadline {
                break;
            }
            if let Some(nv) = still_fails(def, &v.scenario, &cand, &v.class, &v.key, tier) {
                best = cand;
                best_v = nv;
                progress = true;
                break;
            }
        }
    }
    let mut out = v.clone();
    out.case = serde_json::to_value(&best).unwrap();
    out.detail = best_v.detail;
    (out, true, orig)
}
