//! Batch driver: spawns worker processes of this binary, merges their reports,
//! handles known findings, minimises and writes replay files and evidence.

use crate::case::Replay;
use crate::checks::{self, AnyCase, CheckDef, RunStats, Tier};
use crate::oracle::Violation;
use crate::rng::{Hasher64, Rng};
use serde::{Deserialize, Serialize};
use std::collections::{BTreeMap, BTreeSet};
use std::io::Write;
use std::os::unix::fs::FileExt;
use std::path::{Path, PathBuf};
use std::process::{Command, Stdio};
use std::sync::atomic::{AtomicU64, Ordering};
use std::time::Instant;

pub const VERIF: &str = "/verif";

#[derive(Serialize, Deserialize, Clone, Debug)]
pub struct VRec {
    pub scenario: String,
    pub run: u64,
    pub property: String,
    pub class: String,
    pub key: String,
    pub detail: String,
    pub case: serde_json::Value,
    pub count: u64,
}

#[derive(Serialize, Deserialize, Default, Debug)]
pub struct WorkerReport {
    pub runs: u64,
    pub evaluations: u64,
    pub nontrivial: Vec<u64>,
    pub states: Vec<u64>,
    pub transitions: Vec<u64>,
    pub fired: BTreeMap<String, u64>,
    pub counters: BTreeMap<String, u64>,
    pub violations: Vec<VRec>,
    pub samples: Vec<serde_json::Value>,
    pub media_secs: f64,
    pub trace_hashes: Vec<(String, u64, u64)>,
    pub clock_jump_min: i64,
    pub clock_jump_max: i64,
}

// ---------------------------------------------------------------- worker

static CUR_RUN: AtomicU64 = AtomicU64::new(u64::MAX);
static CUR_START_MS: AtomicU64 = AtomicU64::new(0);
static CUR_START_CPU_MS: AtomicU64 = AtomicU64::new(0);
static SLOW_SCENARIO: std::sync::atomic::AtomicBool = std::sync::atomic::AtomicBool::new(false);

fn process_cpu_ms() -> u64 {
    let mut ts = libc::timespec { tv_sec: 0, tv_nsec: 0 };
    unsafe {
        libc::syscall(libc::SYS_clock_gettime, libc::CLOCK_PROCESS_CPUTIME_ID, &mut ts as *mut libc::timespec);
    }
    ts.tv_sec as u64 * 1000 + ts.tv_nsec as u64 / 1_000_000
}

fn mono_ms() -> u64 {
    let mut ts = libc::timespec { tv_sec: 0, tv_nsec: 0 };
    // raw syscall: never goes through the simulated clock seam
    unsafe {
        libc::syscall(libc::SYS_clock_gettime, libc::CLOCK_MONOTONIC, &mut ts as *mut libc::timespec);
    }
    ts.tv_sec as u64 * 1000 + ts.tv_nsec as u64 / 1_000_000
}

fn thread_cpu_ms() -> u64 {
    let mut ts = libc::timespec { tv_sec: 0, tv_nsec: 0 };
    unsafe {
        libc::syscall(libc::SYS_clock_gettime, libc::CLOCK_THREAD_CPUTIME_ID, &mut ts as *mut libc::timespec);
    }
    ts.tv_sec as u64 * 1000 + ts.tv_nsec as u64 / 1_000_000
}

/// CPU-time budget of one simulated run (expected: well under 100 ms). Exceeding it is reported as
/// "does not terminate promptly"; CPU time, not wall time, so machine load cannot raise it.
pub const SLOW_RUN_CPU_MS: u64 = 6000;

/// distinct-case hashes kept per worker process; beyond it distinct_nontrivial is a lower bound
pub const DISTINCT_CAP_PER_WORKER: usize = 1_500_000;

pub fn mono_secs_f64() -> f64 {
    mono_ms() as f64 / 1000.0
}

pub struct WorkerArgs {
    pub id: String,
    pub tier: Tier,
    pub seed: u64,
    pub start: u64,
    pub stride: u64,
    pub heartbeat: Option<PathBuf>,
    pub only_scenario: Option<String>,
    pub only_run: Option<u64>,
    pub only_first: Option<u64>,
    pub skip_slow: bool,
    /// continue at (scenario, run) — used after a worker died on an earlier run
    pub resume: Option<(String, u64)>,
    pub trace_first: u64,
    pub watchdog_secs: u64,
}

pub fn set_rlimit_as(bytes: u64) {
    unsafe {
        let lim = libc::rlimit { rlim_cur: bytes, rlim_max: bytes };
        libc::setrlimit(libc::RLIMIT_AS, &lim);
    }
}

#[derive(Default)]
struct Accum {
    rep: WorkerReport,
    nontrivial: BTreeSet<u64>,
    states: BTreeSet<u64>,
    transitions: BTreeSet<u64>,
    viol: BTreeMap<(String, String), VRec>,
}

impl Accum {
    fn emit(&mut self) {
        let mut rep = std::mem::take(&mut self.rep);
        rep.nontrivial = std::mem::take(&mut self.nontrivial).into_iter().collect();
        rep.states = std::mem::take(&mut self.states).into_iter().collect();
        rep.transitions = std::mem::take(&mut self.transitions).into_iter().collect();
        rep.violations = std::mem::take(&mut self.viol).into_values().collect();
        let out = serde_json::to_vec(&rep).unwrap();
        let stdout = std::io::stdout();
        let mut l = stdout.lock();
        let _ = l.write_all(&out);
        let _ = l.flush();
    }
}

pub fn worker_main(a: WorkerArgs) -> i32 {
    let def = match checks::find(&a.id) {
        Some(d) => d,
        None => {
            eprintln!("unknown check {}", a.id);
            return 2;
        }
    };
    crate::exec::install_panic_hook();
    let hb = a.heartbeat.as_ref().and_then(|p| std::fs::OpenOptions::new().create(true).write(true).truncate(true).open(p).ok());
    let acc = std::sync::Arc::new(std::sync::Mutex::new(Accum::default()));
    {
        let mut g = acc.lock().unwrap();
        g.rep.clock_jump_min = i64::MAX;
        g.rep.clock_jump_max = i64::MIN;
    }
    // watchdog: on expiry, emit what has been gathered so far and leave with code 3
    let wd = a.watchdog_secs;
    let acc_w = acc.clone();
    std::thread::spawn(move || loop {
        std::thread::sleep(std::time::Duration::from_millis(250));
        let r = CUR_RUN.load(Ordering::SeqCst);
        if r == u64::MAX {
            continue;
        }
        let st = CUR_START_MS.load(Ordering::SeqCst);
        let cpu0 = CUR_START_CPU_MS.load(Ordering::SeqCst);
        // CPU budget (load-independent) or a generous wall limit (catches blocked, idle hangs)
        let wd = if SLOW_SCENARIO.load(Ordering::SeqCst) { wd * 60 } else { wd };
        if process_cpu_ms().saturating_sub(cpu0) > wd * 1000 || mono_ms().saturating_sub(st) > wd * 12_000 {
            eprintln!("WATCHDOG run={}", r);
            if let Ok(mut g) = acc_w.lock() {
                g.emit();
            }
            std::process::exit(3);
        }
    });

    let mut global_idx: u64 = 0;
    let mut slow_runs = 0u32;
    let mut resuming = a.resume.is_some();
    for (scenario, count) in (def.scenarios)(a.tier) {
        if let Some(s) = &a.only_scenario {
            if s != scenario {
                global_idx += count;
                continue;
            }
        }
        // scenarios named "slow-..." hold gigabytes: only worker 0 runs them (all indices), one at a time
        let slow = scenario.starts_with("slow-");
        if slow && (a.start != 0 || a.skip_slow) {
            global_idx += count;
            continue;
        }
        let stride = if slow { 1 } else { a.stride };
        let mut i = a.start;
        if resuming {
            let (rs, rr) = a.resume.as_ref().unwrap();
            if rs != scenario {
                global_idx += count;
                continue;
            }
            resuming = false;
            i = *rr;
        }
        let limit = a.only_first.map(|f| f.min(count)).unwrap_or(count);
        while i < limit {
            if let Some(r) = a.only_run {
                if i != r {
                    i += stride;
                    continue;
                }
            }
            let gi = global_idx + i;
            CUR_START_MS.store(mono_ms(), Ordering::SeqCst);
            CUR_START_CPU_MS.store(process_cpu_ms(), Ordering::SeqCst);
            SLOW_SCENARIO.store(slow, Ordering::SeqCst);
            CUR_RUN.store(gi, Ordering::SeqCst);
            if let Some(f) = &hb {
                let line = format!("{:<24} {:>12}\n", scenario, i);
                let _ = f.write_at(line.as_bytes(), 0);
            }
            let mut rng = Rng::for_run(a.seed, &format!("{}:{}", def.id, scenario), i);
            let case = (def.gen)(scenario, &mut rng, a.tier, i);
            let mut st = RunStats::default();
            let cpu0 = thread_cpu_ms();
            let mut vs = (def.eval)(scenario, &case, &mut st, a.tier);
            let cpu = thread_cpu_ms().saturating_sub(cpu0);
            CUR_RUN.store(u64::MAX, Ordering::SeqCst);
            if cpu > SLOW_RUN_CPU_MS && !def.slow_ok && !slow {
                slow_runs += 1;
                vs.push(Violation {
                    property: def.id,
                    class: format!("{}/slow-run", def.id),
                    key: scenario.to_string(),
                    detail: format!("run {} of scenario {} needed {} ms of CPU time (budget {} ms): some call does not terminate promptly", i, scenario, cpu, SLOW_RUN_CPU_MS),
                });
            }
            {
            let mut g = acc.lock().unwrap();
            let g = &mut *g;
            g.rep.runs += 1;
            g.rep.evaluations += st.evaluations.max(1);
            // the distinct set is capped per worker (memory); beyond the cap the count is a lower bound
            let room = g.nontrivial.len() < DISTINCT_CAP_PER_WORKER;
            if let Some(h) = st.nontrivial {
                if room {
                    g.nontrivial.insert(h);
                }
            }
            let had_many = !st.nontrivial_many.is_empty();
            for h in st.nontrivial_many.drain(..) {
                if room {
                    g.nontrivial.insert(h);
                }
            }
            for s in st.states.drain(..) {
                g.states.insert(s);
            }
            for s in st.transitions.drain(..) {
                g.transitions.insert(s);
            }
            for (k, n) in st.fired.iter() {
                *g.rep.fired.entry(k.to_string()).or_insert(0) += n;
            }
            if !slow {
                // margin against the per-run CPU budget (keys starting with "max:" are merged by maximum)
                let e = g.rep.counters.entry("max: slowest run, CPU ms (budget 6000)".to_string()).or_insert(0);
                *e = (*e).max(cpu);
            }
            for (k, n) in st.counters.iter() {
                *g.rep.counters.entry(k.to_string()).or_insert(0) += n;
            }
            g.rep.media_secs += st.media_secs;
            if st.clock_jumps.0 <= st.clock_jumps.1 && (st.clock_jumps != (0, 0)) {
                g.rep.clock_jump_min = g.rep.clock_jump_min.min(st.clock_jumps.0);
                g.rep.clock_jump_max = g.rep.clock_jump_max.max(st.clock_jumps.1);
            }
            if i < a.trace_first {
                g.rep.trace_hashes.push((scenario.to_string(), i, st.trace_hash));
            }
            if a.start == 0 && (g.rep.samples.is_empty() || (g.rep.samples.len() < 3 && (st.nontrivial.is_some() || had_many))) {
                g.rep.samples.push(checks::sample_view(scenario, &case));
            }
            for vi in vs {
                let k = (vi.class.clone(), vi.key.clone());
                match g.viol.get_mut(&k) {
                    Some(r) => r.count += 1,
                    None => {
                        let case_json = match st.violating_cases.iter().find(|(c0, k0, _)| *c0 == vi.class && *k0 == vi.key) {
                            Some((_, _, c)) => c.clone(),
                            None => serde_json::to_value(&case).unwrap(),
                        };
                        g.viol.insert(
                            k,
                            VRec { scenario: scenario.to_string(), run: i, property: vi.property.to_string(), class: vi.class, key: vi.key, detail: vi.detail, case: case_json, count: 1 },
                        );
                    }
                }
            }
            }
            i += stride;
            if slow_runs >= 3 {
                // no point in grinding through a batch in which runs take seconds
                eprintln!("ABORT: {} slow runs", slow_runs);
                acc.lock().unwrap().emit();
                return 0;
            }
        }
        global_idx += count;
    }
    CUR_RUN.store(u64::MAX, Ordering::SeqCst);
    acc.lock().unwrap().emit();
    0
}

// ---------------------------------------------------------------- known findings

#[derive(Serialize, Deserialize, Clone, Debug)]
pub struct Finding {
    pub property: String,
    pub class: String,
    pub key: String,
    /// "open" or "fixed"
    pub status: String,
    #[serde(default)]
    pub commit: Option<String>,
    pub what: String,
    #[serde(default)]
    pub replay: Option<String>,
}

#[derive(Serialize, Deserialize, Clone, Debug, Default)]
pub struct Findings {
    pub findings: Vec<Finding>,
}

pub fn load_findings() -> Findings {
    let p = Path::new(VERIF).join("known_findings.json");
    match std::fs::read(&p) {
        Ok(b) => serde_json::from_slice(&b).unwrap_or_else(|e| {
            eprintln!("HARNESS ERROR: known_findings.json does not parse: {}", e);
            std::process::exit(2);
        }),
        Err(_) => Findings::default(),
    }
}

// ---------------------------------------------------------------- driver

fn self_exe() -> PathBuf {
    std::env::current_exe().expect("current_exe")
}

fn spawn_worker(id: &str, tier: Tier, seed: u64, start: u64, stride: u64, hb: &Path, extra: &[String]) -> std::io::Result<std::process::Child> {
    let mut c = Command::new(self_exe());
    c.arg("--worker").arg(id).arg(tier.name()).arg(seed.to_string()).arg(start.to_string()).arg(stride.to_string()).arg(hb);
    for e in extra {
        c.arg(e);
    }
    c.stdin(Stdio::null()).stdout(Stdio::piped()).stderr(Stdio::piped());
    c.spawn()
}

pub struct Merged {
    pub rep: WorkerReport,
    /// (scenario, run, kind) of worker deaths/hangs
    pub deaths: Vec<(String, u64, String)>,
}

fn read_hb(p: &Path) -> Option<(String, u64)> {
    let s = std::fs::read_to_string(p).ok()?;
    let mut it = s.split_whitespace();
    let sc = it.next()?.to_string();
    let run = it.next()?.parse().ok()?;
    Some((sc, run))
}

pub fn run_batch(def: &CheckDef, tier: Tier, seed: u64, workers: u64, extra: &[String]) -> Result<Merged, String> {
    let work = Path::new(VERIF).join("work");
    std::fs::create_dir_all(&work).map_err(|e| e.to_string())?;
    // one thread per worker slot; a slot respawns its worker after a death or hang and continues behind the fatal run
    let mut handles = Vec::new();
    for w in 0..workers {
        let hb = work.join(format!("hb-{}-{}-{}", def.id, std::process::id(), w));
        let id = def.id.to_string();
        let extra: Vec<String> = extra.to_vec();
        handles.push(std::thread::spawn(move || -> Result<(Vec<WorkerReport>, Vec<(String, u64, String)>), String> {
            let mut reports = Vec::new();
            let mut deaths = Vec::new();
            let mut resume: Option<(String, u64)> = None;
            for _attempt in 0..6 {
                let mut ex = extra.clone();
                if let Some((sc, r)) = &resume {
                    ex.push(format!("--resume={},{}", sc, r));
                }
                let _ = std::fs::remove_file(&hb);
                let child = spawn_worker(&id, tier, seed, w, workers, &hb, &ex).map_err(|e| format!("spawn: {}", e))?;
                let out = child.wait_with_output().map_err(|e| e.to_string())?;
                let code = out.status.code();
                if code == Some(0) || code == Some(3) {
                    match serde_json::from_slice::<WorkerReport>(&out.stdout) {
                        Ok(r) => reports.push(r),
                        Err(e) => {
                            if code == Some(0) {
                                return Err(format!("worker report does not parse: {}", e));
                            }
                        }
                    }
                }
                if code == Some(0) {
                    let _ = std::fs::remove_file(&hb);
                    return Ok((reports, deaths));
                }
                let stderr_text = String::from_utf8_lossy(&out.stderr).to_string();
                if stderr_text.contains("HARNESS PANIC") {
                    return Err(format!("the simulator itself panicked: {}", stderr_text.lines().find(|l| l.contains("HARNESS PANIC")).unwrap_or("")));
                }
                let kind = if code == Some(3) {
                    "hang (watchdog)".to_string()
                } else {
                    format!("process death ({:?}; {})", out.status, String::from_utf8_lossy(&out.stderr).lines().last().unwrap_or(""))
                };
                match read_hb(&hb) {
                    Some((sc, run)) => {
                        deaths.push((sc.clone(), run, kind));
                        resume = Some((sc, run + workers));
                    }
                    None => return Err(format!("worker died without heartbeat: {} / stderr: {}", kind, String::from_utf8_lossy(&out.stderr))),
                }
            }
            let _ = std::fs::remove_file(&hb);
            deaths.push(("-".to_string(), 0, "worker slot gave up after 6 deaths; its remaining runs were not executed".to_string()));
            Ok((reports, deaths))
        }));
    }
    let mut merged = WorkerReport::default();
    merged.clock_jump_min = i64::MAX;
    merged.clock_jump_max = i64::MIN;
    let mut deaths = Vec::new();
    let mut nontrivial: BTreeSet<u64> = BTreeSet::new();
    let mut states: BTreeSet<u64> = BTreeSet::new();
    let mut transitions: BTreeSet<u64> = BTreeSet::new();
    let mut viol: BTreeMap<(String, String), VRec> = BTreeMap::new();
    for h in handles {
        let (reports, d) = h.join().map_err(|_| "join".to_string())??;
        deaths.extend(d);
        for r in reports {
            merged.runs += r.runs;
            merged.evaluations += r.evaluations;
            merged.media_secs += r.media_secs;
            merged.clock_jump_min = merged.clock_jump_min.min(r.clock_jump_min);
            merged.clock_jump_max = merged.clock_jump_max.max(r.clock_jump_max);
            nontrivial.extend(r.nontrivial);
            states.extend(r.states);
            transitions.extend(r.transitions);
            for (k, n) in r.fired {
                *merged.fired.entry(k).or_insert(0) += n;
            }
            for (k, n) in r.counters {
                if k.starts_with("max:") {
                    let e = merged.counters.entry(k).or_insert(0);
                    *e = (*e).max(n);
                    continue;
                }
                *merged.counters.entry(k).or_insert(0) += n;
            }
            merged.trace_hashes.extend(r.trace_hashes);
            if merged.samples.len() < 3 {
                merged.samples.extend(r.samples);
            }
            for v in r.violations {
                let k = (v.class.clone(), v.key.clone());
                match viol.get_mut(&k) {
                    Some(e) => {
                        e.count += v.count;
                        if (v.scenario.as_str(), v.run) < (e.scenario.as_str(), e.run) {
                            let c = e.count;
                            *e = v;
                            e.count = c;
                        }
                    }
                    None => {
                        viol.insert(k, v);
                    }
                }
            }
        }
    }
    merged.nontrivial = nontrivial.into_iter().collect();
    merged.states = states.into_iter().collect();
    merged.transitions = transitions.into_iter().collect();
    merged.violations = viol.into_values().collect();
    merged.samples.truncate(3);
    Ok(Merged { rep: merged, deaths })
}

fn slug(s: &str) -> String {
    let mut o: String = s.chars().map(|c| if c.is_ascii_alphanumeric() { c.to_ascii_lowercase() } else { '-' }).collect();
    while o.contains("--") {
        o = o.replace("--", "-");
    }
    o.trim_matches('-').chars().take(60).collect()
}

pub fn write_replay(def: &CheckDef, seed: u64, v: &VRec, minimised: bool, original_ops: usize) -> PathBuf {
    let dir = Path::new(VERIF).join("replays").join(def.id);
    let _ = std::fs::create_dir_all(&dir);
    let mut h = Hasher64::new();
    h.str(&v.class);
    h.str(&v.key);
    let name = format!("{}-{:08x}-s{}-r{}.json", slug(&v.class), h.finish() as u32, seed, v.run);
    let p = dir.join(name);
    let r = Replay {
        property: v.property.clone(),
        class: v.class.clone(),
        key: v.key.clone(),
        detail: v.detail.clone(),
        seed,
        run: v.run,
        scenario: v.scenario.clone(),
        case: v.case.clone(),
        minimised,
        original_ops,
    };
    std::fs::write(&p, serde_json::to_vec_pretty(&r).unwrap()).expect("write replay");
    p
}

/// Evaluate one explicit case in this process; returns the violations.
pub fn eval_case(def: &CheckDef, scenario: &str, case: &AnyCase, tier: Tier) -> Vec<Violation> {
    let mut st = RunStats::default();
    (def.eval)(scenario, case, &mut st, tier)
}

pub fn replay_main(id: &str, path: &str) -> i32 {
    let def = match checks::find(id) {
        Some(d) => d,
        None => {
            eprintln!("unknown check {}", id);
            return 2;
        }
    };
    let bytes = match std::fs::read(path) {
        Ok(b) => b,
        Err(e) => {
            eprintln!("cannot read {}: {}", path, e);
            return 2;
        }
    };
    let r: Replay = match serde_json::from_slice(&bytes) {
        Ok(r) => r,
        Err(e) => {
            eprintln!("replay file does not parse: {}", e);
            return 2;
        }
    };
    let case: AnyCase = match serde_json::from_value(r.case.clone()) {
        Ok(c) => c,
        Err(e) => {
            eprintln!("replay case does not parse: {}", e);
            return 2;
        }
    };
    crate::exec::install_panic_hook();
    println!("REPLAY property={} scenario={} expecting class={} key={}", def.id, r.scenario, r.class, r.key);
    let vs = eval_case(def, &r.scenario, &case, Tier::Quick);
    let mut hit = false;
    for vv in &vs {
        println!("  violation class={} key={} :: {}", vv.class, vv.key, vv.detail);
        if vv.class == r.class && vv.key == r.key {
            hit = true;
        }
    }
    if hit {
        println!("VIOLATION property={} replay={}", def.id, path);
        1
    } else if vs.is_empty() {
        println!("REPLAY-CLEAN property={} (the recorded violation does not reproduce on this tree)", def.id);
        0
    } else {
        println!("REPLAY-DIFFERENT property={} (other violations reproduce)", def.id);
        println!("VIOLATION property={} replay={}", def.id, path);
        1
    }
}

fn known_match<'a>(f: &'a Findings, prop: &str, class: &str, key: &str) -> Option<&'a Finding> {
    f.findings.iter().find(|x| x.status == "open" && x.property == prop && x.class == class && x.key == key)
}

pub fn driver_main(id: &str, tier: Tier) -> i32 {
    let def = match checks::find(id) {
        Some(d) => d,
        None => {
            eprintln!("unknown check {}", id);
            return 2;
        }
    };
    let seed: u64 = std::env::var("VERIF_SEED").ok().and_then(|s| s.parse().ok()).unwrap_or(1);
    let workers: u64 = std::env::var("VERIF_WORKERS").ok().and_then(|s| s.parse().ok()).unwrap_or_else(|| std::thread::available_parallelism().map(|n| n.get() as u64).unwrap_or(4));
    println!("VERIF_SEED={} check={} tier={} workers={}", seed, id, tier.name(), workers);
    let t0 = Instant::now();
    if id == "C17" {
        // the clock and entropy seams must really be in std's path, or the scenario proves nothing
        if let Err(e) = crate::hooks::self_test() {
            eprintln!("HARNESS ERROR: {}", e);
            return 2;
        }
        println!("seam self-test: SystemTime::now() follows the simulated clock; RandomState follows the per-thread entropy seed");
    }
    let findings = load_findings();
    crate::exec::install_panic_hook();

    // 1. replay open findings of this property
    let mut known_lines = Vec::new();
    for f in findings.findings.iter().filter(|f| f.property == id && f.status == "open") {
        if let Some(rp) = &f.replay {
            let p = Path::new(VERIF).join(rp);
            let ok = std::fs::read(&p).ok().and_then(|b| serde_json::from_slice::<Replay>(&b).ok()).and_then(|r| {
                let case: AnyCase = serde_json::from_value(r.case.clone()).ok()?;
                let vs = eval_case(def, &r.scenario, &case, tier);
                Some(vs.iter().any(|v| v.class == f.class && v.key == f.key))
            });
            match ok {
                Some(true) => {
                    let l = format!("KNOWN-FINDING: property={} {} [{} / {}]", id, f.what, f.class, f.key);
                    println!("{}", l);
                    known_lines.push(l);
                }
                Some(false) => println!("note: listed finding no longer reproduces: {} / {}", f.class, f.key),
                None => {
                    eprintln!("HARNESS ERROR: cannot replay finding file {}", rp);
                    return 2;
                }
            }
        }
    }

    // 2. exploration
    let mut extra: Vec<String> = vec![format!("--trace-first={}", 64)];
    if id == "C16" && tier == Tier::Thorough {
        extra.push("--rlimit-gb=40".to_string());
    }
    let merged = match run_batch(def, tier, seed, workers, &extra) {
        Ok(m) => m,
        Err(e) => {
            eprintln!("HARNESS ERROR: {}", e);
            return 2;
        }
    };
    // determinism sample: the first 64 runs of every scenario again, in one fresh process
    let det = match run_batch(def, tier, seed, 1, &[format!("--trace-first={}", 64), "--only-first=64".to_string(), "--skip-slow=1".to_string()]) {
        Ok(m) => m,
        Err(e) => {
            eprintln!("HARNESS ERROR (determinism pass): {}", e);
            return 2;
        }
    };
    let a: BTreeMap<(String, u64), u64> = merged.rep.trace_hashes.iter().map(|(s, i, h)| ((s.clone(), *i), *h)).collect();
    let b: BTreeMap<(String, u64), u64> = det.rep.trace_hashes.iter().map(|(s, i, h)| ((s.clone(), *i), *h)).collect();
    let mut det_pairs = 0u64;
    let mut irreproducible: Option<(String, u64)> = None;
    for (k, h) in &a {
        if let Some(h2) = b.get(k) {
            det_pairs += 1;
            if h != h2 && irreproducible.is_none() {
                irreproducible = Some(k.clone());
            }
        }
    }
    if let Some((sc, run)) = &irreproducible {
        if id != "C17" {
            eprintln!("HARNESS ERROR: nondeterminism: the event log of run {} of scenario {} differs between two executions of the same seed (in different processes); if the simulator is deterministic, the library's output depends on process-global state, which is property C17's subject", run, sc);
            return 2;
        }
    }

    let mut new_violations: Vec<VRec> = Vec::new();
    let mut known_seen: BTreeMap<String, u64> = BTreeMap::new();
    for v in &merged.rep.violations {
        if let Some(f) = known_match(&findings, id, &v.class, &v.key) {
            *known_seen.entry(format!("{} / {}", f.class, f.key)).or_insert(0) += v.count;
        } else {
            new_violations.push(v.clone());
        }
    }
    if let Some((sc, run)) = irreproducible {
        // for C17 this is the property itself: the same call sequences, repeated in another process, gave other results
        let mut rng = Rng::for_run(seed, &format!("{}:{}", def.id, sc), run);
        let case = (def.gen)(&sc, &mut rng, tier, run);
        new_violations.push(VRec {
            scenario: sc.clone(),
            run,
            property: id.to_string(),
            class: format!("{}/run-not-reproducible", id),
            key: sc.clone(),
            detail: format!("run {} of scenario {} produced a different event log (return values / output bytes) when the identical call sequences were repeated in another process", run, sc),
            case: serde_json::to_value(&case).unwrap(),
            count: 1,
        });
    }
    // process deaths / hangs: one report per kind, for the smallest run; confirmed alone in a fresh process
    let mut by_kind: BTreeMap<String, (String, u64, String, u64)> = BTreeMap::new();
    for (sc, run, kind) in &merged.deaths {
        let key = slug(kind.split('(').next().unwrap_or("death"));
        let e = by_kind.entry(key).or_insert((sc.clone(), *run, kind.clone(), 0));
        e.3 += 1;
        if (sc.as_str(), *run) < (e.0.as_str(), e.1) {
            e.0 = sc.clone();
            e.1 = *run;
            e.2 = kind.clone();
        }
    }
    for (key, (sc, run, kind, n)) in by_kind {
        if sc == "-" {
            eprintln!("note: {}", kind);
            continue;
        }
        let confirm = run_batch(def, tier, seed, 1, &[format!("--only-scenario={}", sc), format!("--only-run={}", run)]);
        let confirmed = match &confirm {
            Ok(m) => !m.deaths.is_empty(),
            Err(_) => true,
        };
        let mut rng = Rng::for_run(seed, &format!("{}:{}", def.id, sc), run);
        let case = (def.gen)(&sc, &mut rng, tier, run);
        let class = format!("{}/process-death-or-hang", id);
        let rec = VRec {
            scenario: sc.clone(),
            run,
            property: id.to_string(),
            class: class.clone(),
            key: key.clone(),
            detail: format!("worker process ended abnormally while executing run {} of scenario {}: {} (confirmed alone in a fresh process: {}; {} runs of this batch ended this way)", run, sc, kind, confirmed, n),
            case: serde_json::to_value(&case).unwrap(),
            count: n,
        };
        if known_match(&findings, id, &class, &key).is_some() {
            *known_seen.entry(format!("{} / {}", class, key)).or_insert(0) += n;
        } else if confirmed {
            new_violations.push(rec);
        } else {
            // the run completes alone: take whatever it reports there
            eprintln!("note: a worker ended on run {} of {} ({}) but the run completes alone; using the result of the solo execution", run, sc, kind);
            if let Ok(m) = confirm {
                for v in m.rep.violations {
                    if known_match(&findings, id, &v.class, &v.key).is_none() && !new_violations.iter().any(|x| x.class == v.class && x.key == v.key) {
                        new_violations.push(v);
                    }
                }
            }
        }
    }

    // 3. minimise + report
    new_violations.sort_by(|a, b| (a.scenario.as_str(), a.run, a.class.as_str()).cmp(&(b.scenario.as_str(), b.run, b.class.as_str())));
    let mut violation_lines = Vec::new();
    for v in new_violations.iter().take(12) {
        let (mv, minimised, orig) = if v.class.ends_with("process-death-or-hang") || v.class.ends_with("run-not-reproducible") { (v.clone(), false, 0) } else { minimise(def, v, tier) };
        let p = write_replay(def, seed, &mv, minimised, orig);
        println!("violation class={} key={} seed={} scenario={} run={} (seen {}x): {}", mv.class, mv.key, seed, mv.scenario, mv.run, v.count, mv.detail);
        let line = format!("VIOLATION property={} replay={}", id, p.display());
        println!("{}", line);
        violation_lines.push(line);
    }
    if new_violations.len() > 12 {
        println!("({} further violation classes not written out)", new_violations.len() - 12);
    }

    // 4. evidence
    let wall = t0.elapsed().as_secs_f64();
    let runs_per_hour = if wall > 0.0 { merged.rep.runs as f64 / wall * 3600.0 } else { 0.0 };
    let never_fired: Vec<&str> = def.fault_kinds.iter().copied().filter(|k| merged.rep.fired.get(*k).copied().unwrap_or(0) == 0).collect();
    let ev = serde_json::json!({
        "property_id": id,
        "tier": tier.name(),
        "seed": seed,
        "level": def.level,
        "coverage": {
            "evaluations": merged.rep.evaluations,
            "distinct_nontrivial": merged.rep.nontrivial.len(),
            "rule": def.rule,
            "samples": merged.rep.samples,
            "exhaustive": def.exhaustive_quick && tier == Tier::Quick && new_violations.is_empty(),
            "simulated_runs": merged.rep.runs,
            "runs_per_hour": runs_per_hour.round(),
            "seeds_per_hour": runs_per_hour.round(),
            "simulated_media_seconds": merged.rep.media_secs,
            "clock_jump_range_secs": if merged.rep.clock_jump_min <= merged.rep.clock_jump_max { serde_json::json!([merged.rep.clock_jump_min, merged.rep.clock_jump_max]) } else { serde_json::Value::Null },
            "fault_kinds_fired": merged.rep.fired,
            "fault_kinds_never_fired": never_fired,
            "distinct_abstract_states": merged.rep.states.len(),
            "distinct_abstract_transitions": merged.rep.transitions.len(),
            "counters": merged.rep.counters,
            "determinism_pairs_compared": det_pairs,
            "components_real": def.real,
            "components_stubbed": def.stubbed,
            "known_findings_seen": known_seen,
            "known_finding_lines": known_lines,
            "workers": workers,
            "scenarios": (def.scenarios)(tier).iter().map(|(n, c)| serde_json::json!({"name": n, "runs": c})).collect::<Vec<_>>(),
        },
        "assumptions": def.assumptions,
        "wall_s": wall,
        "violations": new_violations.len(),
    });
    let evdir = Path::new(VERIF).join("evidence");
    let _ = std::fs::create_dir_all(&evdir);
    if let Err(e) = std::fs::write(evdir.join(format!("{}.json", id)), serde_json::to_vec_pretty(&ev).unwrap()) {
        eprintln!("HARNESS ERROR: cannot write evidence: {}", e);
        return 2;
    }
    println!(
        "summary: runs={} evaluations={} distinct_nontrivial={} states={} wall={:.1}s known_seen={} new_violations={}",
        merged.rep.runs,
        merged.rep.evaluations,
        merged.rep.nontrivial.len(),
        merged.rep.states.len(),
        wall,
        known_seen.len(),
        new_violations.len()
    );
    if new_violations.is_empty() {
        0
    } else {
        1
    }
}

// ---------------------------------------------------------------- minimisation

fn still_fails(def: &CheckDef, scenario: &str, case: &AnyCase, class: &str, key: &str, tier: Tier) -> Option<Violation> {
    let r = std::panic::catch_unwind(std::panic::AssertUnwindSafe(|| eval_case(def, scenario, case, tier)));
    match r {
        Ok(vs) => vs.into_iter().find(|v| v.class == class && v.key == key),
        Err(_) => None,
    }
}

pub fn minimise(def: &CheckDef, v: &VRec, tier: Tier) -> (VRec, bool, usize) {
    let case: AnyCase = match serde_json::from_value(v.case.clone()) {
        Ok(c) => c,
        Err(_) => return (v.clone(), false, 0),
    };
    let orig = case.size();
    if case.payload_bytes() > (256 << 20) {
        return (v.clone(), false, orig);
    }
    // the violation must reproduce in this process first
    let first = match still_fails(def, &v.scenario, &case, &v.class, &v.key, tier) {
        Some(x) => x,
        None => return (v.clone(), false, orig),
    };
    let mut best = case;
    let mut best_v = first;
    let deadline = Instant::now() + std::time::Duration::from_secs(20);
    let mut progress = true;
    let mut rounds = 0;
    while progress && Instant::now() < deadline && rounds < 40 {
        progress = false;
        rounds += 1;
        let mut found: Option<(AnyCase, Violation)> = None;
        for cand in best.shrink_candidates() {
            if Instant::now() >= deadline {
                break;
            }
            if let Some(nv) = still_fails(def, &v.scenario, &cand, &v.class, &v.key, tier) {
                found = Some((cand, nv));
                break;
            }
        }
        if let Some((cand, nv)) = found {
            best = cand;
            best_v = nv;
            progress = true;
        }
    }
    let mut out = v.clone();
    out.case = serde_json::to_value(&best).unwrap();
    out.detail = best_v.detail;
    (out, true, orig)
}

/// `check <id> determinism [n]`: the first n runs of every scenario, executed in separate processes at
/// worker counts 1, 4 and 16 and twice at 16; all event-log hashes must agree.
pub fn determinism_main(id: &str, n: u64) -> i32 {
    let def = match checks::find(id) {
        Some(d) => d,
        None => {
            eprintln!("unknown check {}", id);
            return 2;
        }
    };
    let seeds: Vec<u64> = std::env::var("VERIF_SEEDS").ok().map(|s| s.split(',').filter_map(|x| x.parse().ok()).collect()).unwrap_or_else(|| vec![1, 2, 3]);
    let mut total = 0u64;
    for seed in seeds {
        let mut maps: Vec<BTreeMap<(String, u64), u64>> = Vec::new();
        for w in [1u64, 4, 16, 16] {
            let m = match run_batch(def, Tier::Quick, seed, w, &[format!("--trace-first={}", n), format!("--only-first={}", n), "--skip-slow=1".to_string()]) {
                Ok(m) => m,
                Err(e) => {
                    eprintln!("HARNESS ERROR: {}", e);
                    return 2;
                }
            };
            maps.push(m.rep.trace_hashes.iter().map(|(s, i, h)| ((s.clone(), *i), *h)).collect());
        }
        for (k, h) in &maps[0] {
            for (j, m) in maps.iter().enumerate().skip(1) {
                match m.get(k) {
                    Some(h2) if h2 == h => total += 1,
                    other => {
                        println!("NONDETERMINISM check={} seed={} run={:?}: {:x} with 1 worker, {:?} in batch {}", id, seed, k, h, other, j);
                        return 1;
                    }
                }
            }
        }
        println!("determinism check={} seed={}: {} runs x 4 executions (1, 4, 16, 16 workers) agree", id, seed, maps[0].len());
    }
    println!("determinism check={}: {} pairwise comparisons, all equal", id, total);
    0
}
