//! C16, thorough tier only: recordings whose media data approaches 4 GiB, so
//! that the mdat size and — in the standard layout with an audio track, where
//! every sample is its own chunk — the running chunk offset cross 2^32.
//! The sink only counts (and keeps writes of at most 1 MiB, i.e. the headers);
//! sample locations are judged against the sink's own event log.

use crate::case::*;
use crate::checks::RunStats;
use crate::exec;
use crate::frames::{self, FrameShape};
use crate::oracle::{normalise, v, Violation};
use crate::reader;
use crate::rng::{Hasher64, Rng};

const BIG: usize = 64 << 20;

/// Payload total (bytes of stored samples) to aim at, relative to 2^32.
const TARGETS: [i64; 8] = [-4096, -64, -33, -16, -9, -8, -1, 100];

pub fn gen(rng: &mut Rng, i: u64) -> ProgCase {
    let target = (1i64 << 32) + TARGETS[(i as usize) % TARGETS.len()];
    // runs 0..8: standard layout, audio (every sample its own chunk), tiny samples last (largest chunk offsets);
    // 8..16: the same with fast start; 16..24: the LAST sample is the large one (so that the chunk offsets all
    // fit and the mdat size field is the first thing to overflow), audio and layout drawn; 24..32: video only
    // (one chunk), large last sample
    let mode = (i / 8) % 4;
    let with_audio = match mode {
        0 | 1 => !rng.chance(1, 4),
        2 => true,
        _ => false,
    };
    let fast = match mode {
        0 => false,
        1 => true,
        _ => rng.bool(),
    };
    let big_last = mode >= 2;
    let codec = if rng.bool() { VCodec::Vp9 } else { VCodec::Av1 }; // stored unchanged: sizes are exact
    let cfg = ProgCfg {
        video: Some(VideoCfg { codec, width: 1920, height: 1080, fps: F(30.0), alias: false }),
        audio: if with_audio { Some(AudioCfg { codec: ACodec::Opus, rate: 48000, channels: 2, alias: false }) } else { None },
        video_prior: None,
        audio_prior: None,
        fast_start: Some(fast),
        meta: None,
        sink: SinkKind::Sim,
    };
    let mut ops: Vec<Op> = Vec::new();
    let mut total: i64 = 0;
    let first = frames::build_video(rng, codec, FrameShape::KeyWithConfig, 1, 32, false);
    total += first.stored.len() as i64;
    ops.push(Op::Video { pts: F(0.0), data: Hex(first.data), key: true, cc: true });
    let mut n = 1u64;
    // a few audio packets early and some tiny video frames at the very end (their offsets are the largest)
    let tail_video = if big_last { 0 } else { 3 };
    let tail_sizes: i64 = tail_video * 16;
    let audio_sizes: i64 = if with_audio { 4 * 20 } else { 0 };
    let mut remaining = target - total - tail_sizes - audio_sizes;
    let mk_big = |size: usize, stamp: u64| -> Vec<u8> {
        // a delta frame of exactly `size` bytes, constant filler (compresses in replay files)
        let mut d = match codec {
            VCodec::Vp9 => vec![0x49, 0x83, 0x42, 0x10, 0x00],
            _ => vec![0x30], // AV1 frame OBU header without size field (extends to the end)
        };
        d.extend_from_slice(&stamp.to_be_bytes());
        d.resize(size.max(d.len()), 0xAB);
        d
    };
    while remaining > 0 {
        let size = if remaining > BIG as i64 + (1 << 20) { BIG } else { remaining as usize };
        let d = mk_big(size, n);
        remaining -= d.len() as i64;
        ops.push(Op::Video { pts: F(n as f64 / 30.0), data: Hex(d), key: false, cc: false });
        n += 1;
        if with_audio && n % 16 == 2 && ops.iter().filter(|o| matches!(o, Op::Audio { .. })).count() < 4 {
            let mut a = vec![0xfc];
            a.extend_from_slice(&n.to_be_bytes());
            a.resize(20, 0x55);
            ops.push(Op::Audio { pts: F((n - 1) as f64 / 30.0), data: Hex(a) });
        }
    }
    for _ in 0..tail_video {
        let d = mk_big(16, n);
        ops.push(Op::Video { pts: F(n as f64 / 30.0), data: Hex(d), key: false, cc: false });
        n += 1;
    }
    ops.push(Op::Finish(FinishKind::InPlaceStats));
    ProgCase { cfg, ops, faults: FaultPlan::default() }
}

pub fn eval(case: &ProgCase, st: &mut RunStats) -> Vec<Violation> {
    let mut out = Vec::new();
    let ex = exec::run_prog_opts(case, true);
    let mut th = Hasher64::new();
    for o in &ex.ops {
        th.str(&o.res.short());
    }
    th.u64(ex.sink.accepted_total);
    st.trace_hash = th.finish();
    if let Some((i, msg, loc)) = ex.first_panic() {
        out.push(v("C16", "panic", format!("{}:{}", crate::oracle::op_entry(&case.ops[i]), normalise(msg)), format!("4 GiB recording: op {} panicked: {} at {}", i, msg, loc)));
        return out;
    }
    let total: u64 = case.ops.iter().enumerate().filter(|(i, o)| o.is_write() && ex.ops[*i].res.is_ok()).filter_map(|(_, o)| o.data()).map(|d| d.0.len() as u64).sum();
    st.count("four_gib_runs", 1);
    st.count("four_gib_payload_bytes", total);
    let fi = case.ops.len() - 1;
    let mut a = Hasher64::new();
    a.u64(total);
    a.u64(case.cfg.fast_start_effective() as u64);
    a.u64(case.cfg.audio.is_some() as u64);
    st.nontrivial = Some(a.finish());
    if !ex.ops[fi].res.is_ok() {
        // refusing is a legal answer to "does not fit"; it must say so and must not have written a file
        st.count("four_gib_finish_refused", 1);
        if !matches!(ex.ops[fi].res.ev(), Some(crate::model::EV::Io)) {
            out.push(v("C16", "four-gib", "refusal-variant", format!("finish refused a {}-byte recording with {}", total, ex.ops[fi].res.short())));
        }
        return out;
    }
    st.count("four_gib_finish_ok", 1);
    // The sink kept the whole stream run-length encoded (the frames are constant filler after a stamped head),
    // so the file can be read back at any offset, however the muxer split it into write calls.
    let rle = &ex.sink.rle;
    let read_at = |off: u64, n: usize| -> Option<Vec<u8>> { rle.read(off, n) };
    let file_len = ex.sink.accepted_total;
    let mut pos = 0u64;
    let mut tops: Vec<([u8; 4], u64, u64, u64)> = Vec::new(); // type, start, size, header length
    while pos < file_len {
        let h = match read_at(pos, 8) {
            Some(h) => h,
            None => {
                // a box header inside a large write: cannot be judged from what the sink kept
                st.count("four_gib_walk_incomplete", 1);
                return out;
            }
        };
        let size32 = u32::from_be_bytes([h[0], h[1], h[2], h[3]]) as u64;
        let typ = [h[4], h[5], h[6], h[7]];
        let (size, hl) = if size32 == 1 {
            match read_at(pos + 8, 8) {
                Some(l) => (u64::from_be_bytes([l[0], l[1], l[2], l[3], l[4], l[5], l[6], l[7]]), 16u64),
                None => {
                    st.count("four_gib_walk_incomplete", 1);
                    return out;
                }
            }
        } else {
            (size32, 8)
        };
        if size < hl || pos + size > file_len {
            let what = if &typ == b"mdat" { "mdat".to_string() } else { format!("top-level:{}", String::from_utf8_lossy(&typ)) };
            out.push(v("C16", "box-size", what, format!("4 GiB recording ({} payload bytes): box '{}' at {} declares {} bytes; the file has {} bytes, {} of them after this header", total, String::from_utf8_lossy(&typ), pos, size, file_len, file_len - pos - hl.min(file_len - pos))));
            return out;
        }
        tops.push((typ, pos, size, hl));
        pos += size;
    }
    if let Some(m) = tops.iter().find(|t| &t.0 == b"mdat") {
        st.count("four_gib_mdat_header_checked", 1);
        if m.2 != m.3 + total {
            out.push(v("C16", "box-size", "mdat", format!("mdat header at {} declares {} bytes, payload + header = {}", m.1, m.2, m.3 + total)));
            return out;
        }
    }
    let moov_owned = match tops.iter().find(|t| &t.0 == b"moov") {
        Some(t) if t.2 <= (64 << 20) => match read_at(t.1, t.2 as usize) {
            Some(b) => b,
            None => {
                st.count("four_gib_walk_incomplete", 1);
                return out;
            }
        },
        _ => {
            out.push(v("C16", "four-gib", "no-moov", "finish succeeded but the file has no moov box at the top level".to_string()));
            return out;
        }
    };
    let moov = &moov_owned;
    let tree = match reader::parse_tree(moov) {
        Ok(t) => t,
        Err(e) => {
            out.push(v("C16", "box-size", normalise(&e.msg), format!("4 GiB recording: moov does not tile: {}", e)));
            return out;
        }
    };
    let mut probs = Vec::new();
    let movie = reader::decode_movie(moov, &tree, &mut probs);
    // every sample of every track must resolve to the bytes of the accepted write it stands for (VP9, AV1 and
    // Opus samples are stored unchanged)
    let accepted = |video: bool| -> Vec<&Hex> {
        case.ops
            .iter()
            .enumerate()
            .filter(|(i, o)| ex.ops[*i].res.is_ok() && if video { matches!(o, Op::Video { .. }) } else { matches!(o, Op::Audio { .. }) })
            .filter_map(|(_, o)| o.data())
            .collect()
    };
    let mut located = 0u64;
    for t in &movie.tracks {
        let video = &t.handler == b"vide";
        let want = accepted(video);
        if want.len() != t.samples.len() {
            out.push(v("C16", "four-gib", "sample-count", format!("4 GiB recording: track {} lists {} samples, {} writes were accepted", String::from_utf8_lossy(&t.handler), t.samples.len(), want.len())));
            return out;
        }
        for (k, s) in t.samples.iter().enumerate() {
            let d = &want[k].0;
            if s.size as usize != d.len() {
                out.push(v("C16", "sample-size", "four-gib", format!("4 GiB recording: track {} sample {} has size {} in the table, {} bytes were written", String::from_utf8_lossy(&t.handler), k, s.size, d.len())));
                return out;
            }
            if !rle.holds(s.offset, d) {
                let wrapped = s.offset.checked_add(1 << 32).map(|o| rle.holds(o, d)).unwrap_or(false);
                out.push(v(
                    "C16",
                    "chunk-offset",
                    if wrapped { "wrapped-at-2^32" } else { "value" },
                    format!("4 GiB recording ({} payload bytes, fast_start={}, audio={}): track {} sample {} is addressed at {} (size {}) but the file does not hold its bytes there{}", total, case.cfg.fast_start_effective(), case.cfg.audio.is_some(), String::from_utf8_lossy(&t.handler), k, s.offset, s.size, if wrapped { "; it does at that value plus 2^32" } else { "" }),
                ));
                return out;
            }
            located += 1;
        }
    }
    st.count("four_gib_samples_located", located);
    out
}
