//! The small executable reference model: exact tick conversion, the
//! three-valued contract model (C04), and the logical movie (accepted samples).

use crate::case::*;
use crate::frames::{self, AdtsVerdict, Tri};

pub const TS: u64 = 90_000;

/// Result of converting seconds to 90 kHz ticks exactly.
#[derive(Clone, Copy, Debug, PartialEq, Eq)]
pub struct Ticks {
    /// round-half-away-from-zero of the exact product
    pub exact: u64,
    /// the other acceptable neighbour when the exact product is so close to a
    /// half tick that an f64 multiplication may land on either side
    pub alt: Option<u64>,
    /// the exact value exceeds u64 (the model has no opinion on what is stored)
    pub saturated: bool,
}

impl Ticks {
    pub fn matches(&self, v: u64) -> bool {
        self.saturated || v == self.exact || self.alt == Some(v)
    }
}

/// Exact conversion of a finite, non-negative f64 number of seconds.
pub fn to_ticks(secs: f64) -> Ticks {
    debug_assert!(secs.is_finite() && secs >= 0.0);
    let bits = secs.to_bits();
    let exp_bits = ((bits >> 52) & 0x7ff) as i32;
    let frac = bits & ((1u64 << 52) - 1);
    let (mant, exp) = if exp_bits == 0 { (frac, -1074) } else { (frac | (1u64 << 52), exp_bits - 1075) };
    if mant == 0 {
        return Ticks { exact: 0, alt: None, saturated: false };
    }
    let n = mant as u128 * TS as u128; // < 2^70
    if exp >= 0 {
        if exp as u32 >= 58 || (n << exp) > u64::MAX as u128 {
            return Ticks { exact: u64::MAX, alt: None, saturated: true };
        }
        let v = (n << exp) as u64;
        // products beyond 2^53 are rounded by the f64 multiplication
        return Ticks { exact: v, alt: None, saturated: v > (1u64 << 53) };
    }
    let sh = (-exp) as u32;
    if sh >= 128 {
        return Ticks { exact: 0, alt: None, saturated: false };
    }
    let q = n >> sh;
    let rem = n & ((1u128 << sh) - 1);
    let half = 1u128 << (sh - 1);
    let up = rem >= half;
    let exact = (q + up as u128) as u64;
    // ambiguity window: |frac - 1/2| < p * 2^-51
    let dist = if rem >= half { rem - half } else { half - rem };
    let ambiguous = match dist.checked_mul(1u128 << 51) {
        Some(x) => x < n,
        None => false,
    };
    let alt = if ambiguous { Some(if up { q as u64 } else { q as u64 + 1 }) } else { None };
    Ticks { exact, alt, saturated: q > (1u128 << 53) }
}

// ---------------------------------------------------------------- contract model

#[derive(Clone, Copy, Debug, PartialEq, Eq, PartialOrd, Ord)]
pub enum EV {
    MissingVideoConfig,
    Io,
    AlreadyFinished,
    NegativeVideoPts,
    NegativeVideoDts,
    InvalidVideoPts,
    InvalidVideoDts,
    NegativeAudioPts,
    InvalidAudioPts,
    AudioNotConfigured,
    EmptyAudioFrame,
    EmptyVideoFrame,
    NonIncreasingVideoPts,
    DecreasingAudioPts,
    AudioBeforeFirstVideo,
    FirstVideoFrameMustBeKeyframe,
    FirstVideoFrameMissingSpsPps,
    FirstAv1FrameMissingSequenceHeader,
    FirstVp9FrameMissingSequenceHeader,
    InvalidAdts,
    InvalidAdtsDetailed,
    InvalidOpusPacket,
    NonIncreasingDts,
    Unknown,
}

pub fn classify(e: &muxide::api::MuxerError) -> (EV, Option<std::io::ErrorKind>) {
    use muxide::api::MuxerError as M;
    #[allow(unreachable_patterns)]
    match e {
        M::MissingVideoConfig => (EV::MissingVideoConfig, None),
        M::Io(e) => (EV::Io, Some(e.kind())),
        M::AlreadyFinished => (EV::AlreadyFinished, None),
        M::NegativeVideoPts { .. } => (EV::NegativeVideoPts, None),
        M::NegativeVideoDts { .. } => (EV::NegativeVideoDts, None),
        M::InvalidVideoPts { .. } => (EV::InvalidVideoPts, None),
        M::InvalidVideoDts { .. } => (EV::InvalidVideoDts, None),
        M::NegativeAudioPts { .. } => (EV::NegativeAudioPts, None),
        M::InvalidAudioPts { .. } => (EV::InvalidAudioPts, None),
        M::AudioNotConfigured => (EV::AudioNotConfigured, None),
        M::EmptyAudioFrame { .. } => (EV::EmptyAudioFrame, None),
        M::EmptyVideoFrame { .. } => (EV::EmptyVideoFrame, None),
        M::NonIncreasingVideoPts { .. } => (EV::NonIncreasingVideoPts, None),
        M::DecreasingAudioPts { .. } => (EV::DecreasingAudioPts, None),
        M::AudioBeforeFirstVideo { .. } => (EV::AudioBeforeFirstVideo, None),
        M::FirstVideoFrameMustBeKeyframe => (EV::FirstVideoFrameMustBeKeyframe, None),
        M::FirstVideoFrameMissingSpsPps => (EV::FirstVideoFrameMissingSpsPps, None),
        M::FirstAv1FrameMissingSequenceHeader => (EV::FirstAv1FrameMissingSequenceHeader, None),
        M::FirstVp9FrameMissingSequenceHeader => (EV::FirstVp9FrameMissingSequenceHeader, None),
        M::InvalidAdts { .. } => (EV::InvalidAdts, None),
        M::InvalidAdtsDetailed { .. } => (EV::InvalidAdtsDetailed, None),
        M::InvalidOpusPacket { .. } => (EV::InvalidOpusPacket, None),
        M::NonIncreasingDts { .. } => (EV::NonIncreasingDts, None),
        _ => (EV::Unknown, None),
    }
}

#[derive(Clone, Debug, PartialEq)]
pub enum Verdict {
    MustAccept,
    /// must be rejected, with one of these variants (`io_invalid_data`: Io must be InvalidData)
    MustReject(Vec<EV>),
    /// the documented contract does not decide; `why` is recorded in the evidence
    Either(&'static str),
}

/// What the model remembers of the calls accepted so far.
#[derive(Clone, Debug, Default)]
pub struct ContractState {
    pub has_audio: bool,
    pub audio_codec: Option<ACodec>,
    pub codec: Option<VCodec>,
    pub finished: bool,
    /// a finish attempt failed: the object is dead but the documentation does not say how it reports that
    pub finish_failed: bool,
    /// some accepted timestamp saturates the 64-bit tick counter: whether the finished file can state every
    /// derived value (durations, start offsets) exactly is C16's question, and an error from finish is a legal answer
    pub saturated_ts: bool,
    pub first_video_pts: Option<f64>,
    pub last_video_pts: Option<f64>,
    pub last_video_dts_ticks: Option<u64>,
    pub last_video_dts_alt: Option<u64>,
    pub last_video_dts_secs: Option<f64>,
    pub last_audio_pts: Option<f64>,
    pub last_audio_ticks: Option<u64>,
    pub last_audio_alt: Option<u64>,
    pub video_count: u64,
    pub audio_count: u64,
    pub auto_video_pts: f64,
    pub auto_audio_pts: f64,
    pub audio_rate: u32,
    /// mixed use of write_video and write_video_with_dts seen
    pub used_dts_api: bool,
    pub used_plain_api: bool,
}

impl ContractState {
    pub fn new(cfg: &ProgCfg) -> Self {
        let a = cfg.audio_effective();
        ContractState {
            has_audio: a.is_some(),
            audio_codec: a.map(|a| a.codec),
            codec: cfg.video.as_ref().map(|v| v.codec),
            audio_rate: a.map(|a| a.rate).unwrap_or(0),
            ..Default::default()
        }
    }
}

fn first_frame_config_verdict(codec: VCodec, data: &[u8]) -> (Tri, EV) {
    // Yes: the configuration is present in a well-formed way (constructive);
    // No: no parameter set / sequence header / frame marker exists at all;
    // Unknown: something is there but may be malformed.
    match codec {
        VCodec::H264 => {
            let units = frames::annexb_units(data);
            let sps = units.iter().find(|u| u[0] & 0x1f == 7);
            let pps = units.iter().find(|u| u[0] & 0x1f == 8);
            match (sps, pps) {
                // a set that does not fit the 16-bit length of avcC: C16 demands an error, the contract is silent
                (Some(a), Some(b)) if a.len() > 65535 || b.len() > 65535 => (Tri::Unknown, EV::Io),
                (Some(_), Some(_)) => (Tri::Yes, EV::FirstVideoFrameMissingSpsPps),
                _ => (Tri::No, EV::FirstVideoFrameMissingSpsPps),
            }
        }
        VCodec::H265 => {
            let units = frames::annexb_units(data);
            let first = |t: u8| units.iter().find(|u| (u[0] >> 1) & 0x3f == t);
            match (first(32), first(33), first(34)) {
                (Some(a), Some(b), Some(c)) if a.len() > 65535 || b.len() > 65535 || c.len() > 65535 => (Tri::Unknown, EV::Io),
                (Some(_), Some(_), Some(_)) => (Tri::Yes, EV::FirstVideoFrameMissingSpsPps),
                _ => (Tri::No, EV::FirstVideoFrameMissingSpsPps),
            }
        }
        VCodec::Av1 => {
            // walk OBUs by the spec's framing; any byte that could be an OBU type-1 header => Unknown
            let mut pos = 0usize;
            let mut found = false;
            let mut clean = true;
            while pos < data.len() {
                let h = data[pos];
                if h & 0x80 != 0 {
                    clean = false;
                    break;
                }
                let typ = (h >> 3) & 0xf;
                let ext = h & 4 != 0;
                let has_size = h & 2 != 0;
                let mut hl = 1 + ext as usize;
                if pos + hl > data.len() {
                    clean = false;
                    break;
                }
                let plen = if has_size {
                    let mut v: u64 = 0;
                    let mut ok = false;
                    let mut i = 0;
                    while i < 8 && pos + hl + i < data.len() {
                        let b = data[pos + hl + i];
                        v |= ((b & 0x7f) as u64) << (7 * i);
                        i += 1;
                        if b & 0x80 == 0 {
                            ok = true;
                            break;
                        }
                    }
                    if !ok {
                        clean = false;
                        break;
                    }
                    hl += i;
                    v as usize
                } else {
                    data.len() - pos - hl
                };
                if pos + hl + plen > data.len() {
                    clean = false;
                    break;
                }
                if typ == 1 {
                    found = true;
                    break;
                }
                pos += hl + plen;
            }
            if found {
                (Tri::Unknown, EV::FirstAv1FrameMissingSequenceHeader)
            } else if clean {
                (Tri::No, EV::FirstAv1FrameMissingSequenceHeader)
            } else {
                (Tri::Unknown, EV::FirstAv1FrameMissingSequenceHeader)
            }
        }
        VCodec::Vp9 => {
            if data.len() < 3 || data[0] != 0x49 || data[1] != 0x83 || data[2] != 0x42 {
                (Tri::No, EV::FirstVp9FrameMissingSequenceHeader)
            } else {
                (Tri::Unknown, EV::FirstVp9FrameMissingSequenceHeader)
            }
        }
    }
}

/// Hint from the generator: this frame was built constructively valid with configuration.
#[derive(Clone, Copy, Debug, Default)]
pub struct FrameHint {
    pub constructive_config: bool,
}

fn finalize_verdict(mut rej: Vec<EV>, maybe: Vec<EV>, either: Option<&'static str>) -> Verdict {
    if !rej.is_empty() {
        // preconditions whose violation is undecided may also be the one the error names
        rej.extend(maybe);
        rej.sort();
        rej.dedup();
        return Verdict::MustReject(rej);
    }
    if let Some(w) = either {
        return Verdict::Either(w);
    }
    Verdict::MustAccept
}

fn lo_hi(exact: u64, alt: Option<u64>) -> (u64, u64) {
    match alt {
        Some(a) => (exact.min(a), exact.max(a)),
        None => (exact, exact),
    }
}

fn video_verdict(st: &ContractState, pts: f64, dts: Option<f64>, data: &[u8], key: bool, hint: FrameHint) -> Verdict {
    let mut rej: Vec<EV> = Vec::new();
    let mut maybe: Vec<EV> = Vec::new();
    let mut either: Option<&'static str> = None;
    if st.finish_failed {
        // finish was called and failed: "cannot write frames after calling finish()"; any other violated
        // precondition may be the one that is named
        rej.push(EV::AlreadyFinished);
        maybe.push(EV::Io);
    }
    if st.finished {
        rej.push(EV::AlreadyFinished);
    }
    if data.is_empty() {
        rej.push(EV::EmptyVideoFrame);
    }
    if !pts.is_finite() {
        rej.push(EV::InvalidVideoPts);
    } else if pts < 0.0 {
        rej.push(EV::NegativeVideoPts);
    }
    let explicit = dts.is_some();
    let d = dts.unwrap_or(pts);
    if explicit {
        if !d.is_finite() {
            rej.push(EV::InvalidVideoDts);
        } else if d < 0.0 {
            rej.push(EV::NegativeVideoDts);
        }
    }
    let ts_ok = pts.is_finite() && pts >= 0.0 && d.is_finite() && d >= 0.0;
    if ts_ok {
        let dt = to_ticks(d);
        let pt = to_ticks(pts);
        if dt.saturated || pt.saturated {
            either = Some("timestamp beyond 2^53 ticks");
            maybe.extend([EV::NonIncreasingDts, EV::NonIncreasingVideoPts, EV::Io]);
        }
        // composition offset beyond the signed 32-bit field: C16 demands an error from some call,
        // the documented contract is silent on which; never judged here
        let off = pt.exact as i128 - dt.exact as i128;
        if off.abs() >= (1i128 << 31) - 2 {
            either = Some("composition offset at or beyond the 32-bit field");
            maybe.push(EV::Io);
        }
        // decode order
        if let (Some(prev_t), Some(prev_s)) = (st.last_video_dts_ticks, st.last_video_dts_secs) {
            let (plo, phi) = lo_hi(prev_t, st.last_video_dts_alt);
            let (clo, chi) = lo_hi(dt.exact, dt.alt);
            if d <= prev_s {
                rej.push(EV::NonIncreasingDts);
                rej.push(EV::NonIncreasingVideoPts);
            } else if clo <= phi {
                either = Some("decode time greater in seconds but not certainly in ticks");
                maybe.extend([EV::NonIncreasingDts, EV::NonIncreasingVideoPts]);
            } else if clo - phi > u32::MAX as u64 {
                rej.push(EV::Io);
            } else if chi - plo > u32::MAX as u64 {
                either = Some("gap at the 32-bit boundary within rounding");
                maybe.push(EV::Io);
            }
        }
        // plain write_video additionally documents "pts strictly greater than previous pts"
        if !explicit {
            if let Some(pp) = st.last_video_pts {
                if pts <= pp {
                    if st.used_dts_api && !rej.contains(&EV::NonIncreasingDts) {
                        // previous pts came from a reordered frame; decode order itself is fine
                        either = Some("write_video after write_video_with_dts: pts rule and decode order disagree");
                        maybe.push(EV::NonIncreasingVideoPts);
                    } else {
                        rej.push(EV::NonIncreasingVideoPts);
                    }
                }
            }
        }
    }
    if st.video_count == 0 {
        if !key {
            rej.push(EV::FirstVideoFrameMustBeKeyframe);
        }
        if !data.is_empty() {
            if let Some(c) = st.codec {
                let (has, ev) = first_frame_config_verdict(c, data);
                match has {
                    Tri::No => rej.push(ev),
                    Tri::Yes => {}
                    Tri::Unknown => {
                        if ev == EV::Io {
                            either = Some("parameter set beyond the 16-bit length field");
                            maybe.push(ev);
                        } else if !hint.constructive_config {
                            either = Some("first frame configuration may be malformed");
                            maybe.push(ev);
                        }
                    }
                }
            }
        }
    }
    finalize_verdict(rej, maybe, either)
}

fn audio_verdict(st: &ContractState, pts: f64, data: &[u8]) -> Verdict {
    let mut rej: Vec<EV> = Vec::new();
    let mut maybe: Vec<EV> = Vec::new();
    let mut either: Option<&'static str> = None;
    if st.finish_failed {
        // finish was called and failed: "cannot write frames after calling finish()"; any other violated
        // precondition may be the one that is named
        rej.push(EV::AlreadyFinished);
        maybe.push(EV::Io);
    }
    if st.finished {
        rej.push(EV::AlreadyFinished);
    }
    if !st.has_audio {
        rej.push(EV::AudioNotConfigured);
    }
    if !pts.is_finite() {
        rej.push(EV::InvalidAudioPts);
    } else if pts < 0.0 {
        rej.push(EV::NegativeAudioPts);
    }
    if data.is_empty() {
        rej.push(EV::EmptyAudioFrame);
    }
    if pts.is_finite() && pts >= 0.0 {
        let t = to_ticks(pts);
        if t.saturated {
            either = Some("timestamp beyond 2^53 ticks");
            maybe.extend([EV::DecreasingAudioPts, EV::Io]);
        }
        if let (Some(ps), Some(pt)) = (st.last_audio_pts, st.last_audio_ticks) {
            let (plo, phi) = lo_hi(pt, st.last_audio_alt);
            let (clo, chi) = lo_hi(t.exact, t.alt);
            if pts < ps {
                if chi >= plo {
                    either = Some("audio time lower in seconds but not certainly in ticks");
                    maybe.push(EV::DecreasingAudioPts);
                } else {
                    rej.push(EV::DecreasingAudioPts);
                }
            } else if clo > phi && clo - phi > u32::MAX as u64 {
                rej.push(EV::Io);
            } else if chi > plo && chi - plo > u32::MAX as u64 {
                either = Some("gap at the 32-bit boundary within rounding");
                maybe.push(EV::Io);
            }
        }
        match st.first_video_pts {
            None => rej.push(EV::AudioBeforeFirstVideo),
            Some(fv) => {
                if pts < fv {
                    let f = to_ticks(fv);
                    let (flo, _fhi) = lo_hi(f.exact, f.alt);
                    let (_clo, chi) = lo_hi(t.exact, t.alt);
                    if chi >= flo {
                        either = Some("audio earlier than first video in seconds but not certainly in ticks");
                        maybe.push(EV::AudioBeforeFirstVideo);
                    } else {
                        rej.push(EV::AudioBeforeFirstVideo);
                    }
                }
            }
        }
    }
    if !data.is_empty() {
        match st.audio_codec {
            Some(ACodec::Opus) => match frames::opus_check(data) {
                Tri::No => rej.push(EV::InvalidOpusPacket),
                Tri::Unknown => {
                    either = Some("Opus packet longer than 120 ms");
                    maybe.push(EV::InvalidOpusPacket);
                }
                Tri::Yes => {}
            },
            Some(_) => match frames::adts_check(data) {
                AdtsVerdict::Invalid => {
                    rej.push(EV::InvalidAdts);
                    rej.push(EV::InvalidAdtsDetailed);
                }
                AdtsVerdict::Valid { hdr, len } => {
                    if hdr == len {
                        either = Some("ADTS frame with empty payload");
                        maybe.extend([EV::InvalidAdts, EV::InvalidAdtsDetailed, EV::EmptyAudioFrame]);
                    }
                }
            },
            None => {}
        }
    }
    finalize_verdict(rej, maybe, either)
}

/// Key flag that automatic detection must produce for `encode_video`, if the documentation fixes it.
pub fn auto_key(codec: VCodec, data: &[u8], video_count: u64) -> Option<bool> {
    match codec {
        VCodec::H264 => {
            let u = frames::annexb_units(data);
            Some(u.iter().any(|n| n[0] & 0x1f == 5))
        }
        VCodec::H265 => {
            let u = frames::annexb_units(data);
            let types: Vec<u8> = u.iter().map(|n| (n[0] >> 1) & 0x3f).collect();
            if types.iter().any(|t| (19..=21).contains(t)) {
                Some(true)
            } else if types.iter().any(|t| (16..=18).contains(t) || *t == 22 || *t == 23) {
                None
            } else {
                Some(false)
            }
        }
        VCodec::Av1 => {
            if video_count == 0 {
                Some(true)
            } else {
                None
            }
        }
        VCodec::Vp9 => {
            if data.len() >= 4 && data[0] == 0x49 && data[1] == 0x83 && data[2] == 0x42 {
                Some((data[3] >> 5) & 1 == 0 && (data[3] >> 4) & 1 == 0)
            } else {
                Some(false)
            }
        }
    }
}

impl ContractState {
    /// Verdict for `op` in the current state. `hint` comes from the generator.
    pub fn judge(&self, op: &Op) -> Verdict {
        let hint = FrameHint { constructive_config: op.cc() };
        match op {
            Op::Video { pts, data, key, .. } => video_verdict(self, pts.0, None, &data.0, *key, hint),
            Op::VideoDts { pts, dts, data, key, .. } => video_verdict(self, pts.0, Some(dts.0), &data.0, *key, hint),
            Op::Audio { pts, data } => audio_verdict(self, pts.0, &data.0),
            Op::EncVideo { data, .. } => {
                if data.0.is_empty() {
                    return if self.finished {
                        Verdict::MustReject(vec![EV::AlreadyFinished, EV::EmptyVideoFrame])
                    } else {
                        Verdict::MustReject(vec![EV::EmptyVideoFrame])
                    };
                }
                let codec = match self.codec {
                    Some(c) => c,
                    None => return Verdict::Either("no codec"),
                };
                match auto_key(codec, &data.0, self.video_count) {
                    Some(k) => video_verdict(self, self.auto_video_pts, None, &data.0, k, hint),
                    None => {
                        // key detection unspecified: judge both ways, agree or abstain
                        let a = video_verdict(self, self.auto_video_pts, None, &data.0, true, hint);
                        let b = video_verdict(self, self.auto_video_pts, None, &data.0, false, hint);
                        if a == b {
                            a
                        } else {
                            Verdict::Either("automatic key detection unspecified for this frame")
                        }
                    }
                }
            }
            Op::EncAudio { data, .. } => {
                if self.has_audio && self.audio_rate == 0 {
                    return Verdict::Either("encode_audio with sample rate 0");
                }
                audio_verdict(self, self.auto_audio_pts, &data.0)
            }
            Op::Finish(_) => {
                if self.finished {
                    Verdict::MustReject(vec![EV::AlreadyFinished])
                } else if self.finish_failed {
                    Verdict::MustReject(vec![EV::AlreadyFinished, EV::Io])
                } else if self.saturated_ts {
                    Verdict::Either("finish after a timestamp that saturates the tick counter")
                } else {
                    Verdict::MustAccept
                }
            }
            Op::Drop | Op::ClearLog | Op::ReadLog => Verdict::Either("not a contract call"),
        }
    }

    /// Advance the model with what actually happened.
    pub fn apply(&mut self, op: &Op, accepted: bool, io_failed: bool) {
        match op {
            Op::Video { pts, .. } if accepted => {
                self.note_video(pts.0, pts.0);
                self.used_plain_api = true;
            }
            Op::VideoDts { pts, dts, .. } if accepted => {
                self.note_video(pts.0, dts.0);
                self.used_dts_api = true;
            }
            Op::Audio { pts, .. } if accepted => self.note_audio(pts.0),
            Op::EncVideo { dur_ms, .. } if accepted => {
                let p = self.auto_video_pts;
                self.note_video(p, p);
                self.used_plain_api = true;
                self.auto_video_pts += *dur_ms as f64 / 1000.0;
            }
            Op::EncAudio { samples, .. } if accepted => {
                let p = self.auto_audio_pts;
                self.note_audio(p);
                self.auto_audio_pts += *samples as f64 / self.audio_rate as f64;
            }
            Op::Finish(_) => {
                if accepted {
                    self.finished = true;
                } else if io_failed && !self.finished {
                    self.finish_failed = true;
                }
            }
            _ => {}
        }
    }

    fn note_video(&mut self, pts: f64, dts: f64) {
        if self.first_video_pts.is_none() {
            self.first_video_pts = Some(pts);
        }
        self.last_video_pts = Some(pts);
        self.last_video_dts_secs = Some(dts);
        let t = to_ticks(dts);
        if t.saturated || to_ticks(pts).saturated {
            self.saturated_ts = true;
        }
        self.last_video_dts_ticks = Some(t.exact);
        self.last_video_dts_alt = t.alt;
        self.video_count += 1;
    }
    fn note_audio(&mut self, pts: f64) {
        self.last_audio_pts = Some(pts);
        let t = to_ticks(pts);
        if t.saturated {
            self.saturated_ts = true;
        }
        self.last_audio_ticks = Some(t.exact);
        self.last_audio_alt = t.alt;
        self.audio_count += 1;
    }
}

// ---------------------------------------------------------------- logical movie

#[derive(Clone, Debug)]
pub struct MSample {
    pub op_index: usize,
    pub stored: Vec<u8>,
    pub pts: Ticks,
    pub dts: Ticks,
    /// submitted key flag; None where automatic detection is unspecified
    pub key: Option<bool>,
    pub pts_secs: f64,
    pub dts_secs: f64,
}

#[derive(Clone, Debug, Default)]
pub struct LogicalMovie {
    pub video: Vec<MSample>,
    pub audio: Vec<MSample>,
    /// some timestamp was beyond exact representation; timing oracles abstain
    pub inexact: bool,
}

/// Build the logical movie from the calls the library accepted (`accepted[i]`).
pub fn logical_movie(case: &ProgCase, accepted: &[bool]) -> LogicalMovie {
    let mut m = LogicalMovie::default();
    let codec = match &case.cfg.video {
        Some(v) => v.codec,
        None => return m,
    };
    let acodec = case.cfg.audio_effective().map(|a| a.codec);
    let rate = case.cfg.audio_effective().map(|a| a.rate).unwrap_or(0);
    let mut auto_v = 0.0f64;
    let mut auto_a = 0.0f64;
    for (i, op) in case.ops.iter().enumerate() {
        let ok = accepted.get(i).copied().unwrap_or(false);
        if !ok {
            continue;
        }
        match op {
            Op::Video { pts, data, key, .. } => m.video.push(mk(i, frames::expected_stored_video(codec, &data.0), pts.0, pts.0, Some(*key))),
            Op::VideoDts { pts, dts, data, key, .. } => {
                m.video.push(mk(i, frames::expected_stored_video(codec, &data.0), pts.0, dts.0, Some(*key)))
            }
            Op::EncVideo { data, dur_ms, .. } => {
                let k = auto_key(codec, &data.0, m.video.len() as u64);
                m.video.push(mk(i, frames::expected_stored_video(codec, &data.0), auto_v, auto_v, k));
                auto_v += *dur_ms as f64 / 1000.0;
            }
            Op::Audio { pts, data } => {
                if let Some(ac) = acodec {
                    let st = frames::expected_stored_audio(ac, &data.0).unwrap_or_default();
                    m.audio.push(mk(i, st, pts.0, pts.0, None));
                }
            }
            Op::EncAudio { data, samples } => {
                if let Some(ac) = acodec {
                    let st = frames::expected_stored_audio(ac, &data.0).unwrap_or_default();
                    m.audio.push(mk(i, st, auto_a, auto_a, None));
                    auto_a += *samples as f64 / rate as f64;
                }
            }
            _ => {}
        }
    }
    m.inexact = m.video.iter().chain(m.audio.iter()).any(|s| s.pts.saturated || s.dts.saturated);
    m
}

fn mk(i: usize, stored: Vec<u8>, pts: f64, dts: f64, key: Option<bool>) -> MSample {
    let ok = |x: f64| x.is_finite() && x >= 0.0;
    let sat = Ticks { exact: 0, alt: None, saturated: true };
    MSample {
        op_index: i,
        stored,
        pts: if ok(pts) { to_ticks(pts) } else { sat },
        dts: if ok(dts) { to_ticks(dts) } else { sat },
        key,
        pts_secs: pts,
        dts_secs: dts,
    }
}

#[cfg(test)]
mod tests {
    use super::*;
    #[test]
    fn ticks_exact() {
        assert_eq!(to_ticks(0.0).exact, 0);
        assert_eq!(to_ticks(1.0).exact, 90000);
        assert_eq!(to_ticks(1.0 / 30.0).exact, 3000);
        assert_eq!(to_ticks(1001.0 / 30000.0).exact, 3003);
        assert_eq!(to_ticks(0.5 / 90000.0).exact, 1);
        assert_eq!(to_ticks(0.49 / 90000.0).exact, 0);
        // agreement with f64 arithmetic on a sweep, outside the ambiguity window
        let mut r = crate::rng::Rng::new(3);
        for _ in 0..200000 {
            let x = (r.next_u64() % 100_000_000) as f64 / 1000.0 / 7.0;
            let t = to_ticks(x);
            let lib = (x * 90000.0).round() as u64;
            assert!(t.matches(lib), "{x}: {t:?} vs {lib}");
        }
        assert!(to_ticks(1e300).saturated);
    }
}
