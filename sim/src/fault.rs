//! S-FAULT (C13): for a representative history, run once fault-free to learn
//! the file F, the stats S and the write-call profile, then enumerate every
//! fault point (write call x kind, byte offset) and seeded benign schedules.

use crate::case::*;
use crate::checks::{RunStats, Tier};
use crate::exec::{self, ProgExec, Res};
use crate::frames::{self, FrameShape};
use crate::gen::{self, Knobs};
use crate::oracle::{normalise, op_entry, v, Violation};
use crate::rng::{Hasher64, Rng};
use crate::sink::Outcome;

/// History = valid writes, then the finish under test, then probes that must all fail and write nothing.
pub fn gen_history(rng: &mut Rng, idx: u64) -> ProgCase {
    let mut k = Knobs::functional();
    k.long_pct = 0;
    k.mib_frames = false; // every fault point re-executes the history
    k.short_max = 6;
    k.after_finish_pct = 0;
    k.enc_api_pct = 5;
    k.long_title_pct = 0;
    k.meta_pct = 50;
    let mut cfg = gen::draw_cfg(rng, &k);
    // the first histories pin the layout classes; the rest are drawn
    let combo = idx % 16;
    if idx < 48 {
        cfg.fast_start = Some(combo & 1 == 0);
        if combo & 2 == 0 {
            cfg.audio = None;
        } else if cfg.audio_effective().is_none() {
            cfg.audio = Some(AudioCfg { codec: if combo & 8 == 0 { ACodec::AacLc } else { ACodec::Opus }, rate: 48000, channels: 2, alias: false });
        }
        if combo & 4 == 0 {
            cfg.meta = None;
        } else if cfg.meta.is_none() {
            cfg.meta = Some(MetaCfg { title: Some("fault enumeration".into()), ctime: Some(1700000000), lang: Some("eng".into()), style: 0 });
        }
    }
    let (mut case, _) = gen::gen_prog_with_cfg(rng, &k, cfg);
    // strip whatever finish the generator appended; we add our own tail
    case.ops.retain(|o| !matches!(o, Op::Finish(_) | Op::Drop));
    if idx < 48 {
        // sample-count classes: 0, 1, many
        match (idx / 16) % 3 {
            0 => case.ops.clear(),
            1 => case.ops.truncate(1),
            _ => {}
        }
    }
    let codec = case.cfg.video.as_ref().map(|v| v.codec).unwrap_or(VCodec::H264);
    let ac = case.cfg.audio_effective().map(|a| a.codec).unwrap_or(ACodec::AacLc);
    case.ops.push(Op::Finish(FinishKind::InPlaceStats));
    case.ops.push(Op::Finish(FinishKind::InPlace));
    let f = frames::build_video(rng, codec, FrameShape::KeyWithConfig, 0xfeed, 16, false);
    case.ops.push(Op::Video { pts: F(5000.0), data: Hex(f.data), key: true, cc: true });
    let a = frames::build_audio(rng, ac, 0xbeef, 16, false);
    case.ops.push(Op::Audio { pts: F(5000.0), data: Hex(a.data) });
    let f = frames::build_video(rng, codec, FrameShape::KeyWithConfig, 0xf00d, 16, false);
    case.ops.push(Op::EncVideo { data: Hex(f.data), dur_ms: 33, cc: true });
    case.ops.push(Op::Finish(FinishKind::InPlaceStats));
    case.ops.push(Op::Finish(*rng.pick(&[FinishKind::Consume, FinishKind::ConsumeStats, FinishKind::Flush])));
    case.faults = FaultPlan::default();
    case
}

struct Reference {
    file: Vec<u8>,
    stats: Option<exec::Stats>,
    finish_op: usize,
    /// sizes of the write calls of the fault-free finish
    calls: Vec<u32>,
}

fn reference(case: &ProgCase) -> Result<Reference, Violation> {
    let mut c = case.clone();
    c.faults = FaultPlan::default();
    let ex = exec::run_prog(&c);
    if let Some((i, msg, loc)) = ex.first_panic() {
        return Err(v("C13", "panic", format!("{}:{}", op_entry(&c.ops[i]), normalise(msg)), format!("fault-free reference run panicked at op {}: {} at {}", i, msg, loc)));
    }
    let fi = match c.ops.iter().position(|o| matches!(o, Op::Finish(_))) {
        Some(i) => i,
        None => return Err(v("C13", "harness", "no-finish", "history without finish".to_string())),
    };
    if !ex.ops[fi].res.is_ok() {
        return Err(v("C13", "reference-finish-failed", normalise(&ex.ops[fi].res.short()), format!("fault-free finish returned {}", ex.ops[fi].res.short())));
    }
    let calls: Vec<u32> = ex.sink.events.iter().filter(|e| e.op as usize == fi).map(|e| e.len).collect();
    Ok(Reference { file: ex.sink.bytes.clone(), stats: ex.ops[fi].stats, finish_op: fi, calls })
}

fn fatal_fired(ex: &ProgExec, upto_op: usize) -> bool {
    ex.sink.events.iter().any(|e| e.op as usize <= upto_op && matches!(e.outcome, Outcome::Err(_) | Outcome::Zero))
}

/// Check one faulted execution against the reference.
fn judge(case: &ProgCase, r: &Reference, ex: &ProgExec) -> Vec<Violation> {
    let mut out = Vec::new();
    let plan_desc = || -> String {
        let mut s = String::new();
        if let Some((c, f)) = case.faults.at_call.first() {
            s = format!("{} at write call {}", f.name(), c);
        }
        if let Some((b, _)) = case.faults.die_at_byte {
            s = format!("sink dies at byte {}", b);
        }
        if !case.faults.pattern.is_empty() {
            s = format!("{} + benign pattern {:?}", s, case.faults.pattern);
        }
        s
    };
    // (1) no panic
    if let Some((i, msg, loc)) = ex.first_panic() {
        out.push(v("C13", "panic", format!("{}:{}", op_entry(&case.ops[i]), normalise(msg)), format!("[{}] op {} ({}) panicked: {} at {}", plan_desc(), i, op_entry(&case.ops[i]), msg, loc)));
        return out;
    }
    let fi = r.finish_op;
    let failed = fatal_fired(ex, fi);
    let fin = &ex.ops[fi].res;
    // (2) error iff a write ultimately failed
    match (failed, fin) {
        (true, Res::Ok) => {
            out.push(v("C13", "failure-hidden", case.faults.at_call.first().map(|f| f.1.name()).unwrap_or("die_at_byte"), format!("[{}] the sink failed during finish but finish returned Ok", plan_desc())));
            return out;
        }
        (false, Res::Err { .. }) => {
            out.push(v("C13", "spurious-error", case.faults.at_call.first().map(|f| f.1.name()).unwrap_or("benign"), format!("[{}] the sink only shortened/interrupted writes but finish returned {}", plan_desc(), fin.short())));
            return out;
        }
        _ => {}
    }
    // bytes accepted up to the end of the finish under test
    let accepted_during: u64 = ex.sink.events.iter().filter(|e| e.op as usize <= fi).map(|e| if let Outcome::Accepted(n) = e.outcome { n as u64 } else { 0 }).sum();
    let delivered = &ex.sink.bytes[..(accepted_during as usize).min(ex.sink.bytes.len())];
    // (3) always a prefix of F
    if delivered.len() > r.file.len() || delivered != &r.file[..delivered.len()] {
        let pos = delivered.iter().zip(r.file.iter()).position(|(a, b)| a != b).unwrap_or(r.file.len().min(delivered.len()));
        let kind = if delivered.len() > r.file.len() { "longer-than-file" } else { "bytes-differ" };
        out.push(v("C13", "not-a-prefix", kind, format!("[{}] delivered {} bytes which are not a prefix of the fault-free file ({} bytes); first difference at {}", plan_desc(), delivered.len(), r.file.len(), pos)));
        return out;
    }
    // (5) benign only: identical bytes and stats
    if !failed {
        if delivered != &r.file[..] {
            out.push(v("C13", "benign-bytes-differ", "truncated", format!("[{}] finish returned Ok but delivered {} of {} bytes", plan_desc(), delivered.len(), r.file.len())));
            return out;
        }
        if ex.ops[fi].stats != r.stats {
            out.push(v("C13", "benign-stats-differ", "", format!("[{}] stats {:?} differ from the fault-free run's {:?}", plan_desc(), ex.ops[fi].stats, r.stats)));
            return out;
        }
    }
    // (4) afterwards nothing is written (the sink is healed, so any attempt would be accepted and seen)
    if ex.sink.accepted_total != accepted_during {
        let e = ex.sink.events.iter().find(|e| e.op as usize > fi && matches!(e.outcome, Outcome::Accepted(n) if n > 0));
        out.push(v(
            "C13",
            "write-after-finish-attempt",
            if failed { "after-failure" } else { "after-success" },
            format!("[{}] {} further bytes were written after the finish attempt (first during op {} = {})", plan_desc(), ex.sink.accepted_total - accepted_during, e.map(|e| e.op as i64).unwrap_or(-1), e.and_then(|e| case.ops.get(e.op as usize)).map(op_entry).unwrap_or("?")),
        ));
        return out;
    }
    if let Some(e) = ex.sink.events.iter().find(|e| e.op as usize > fi) {
        out.push(v("C13", "write-after-finish-attempt", "attempted", format!("[{}] the sink was called again during op {} after the finish attempt", plan_desc(), e.op)));
        return out;
    }
    for (i, op) in case.ops.iter().enumerate().skip(fi + 1) {
        if matches!(ex.ops[i].res, Res::Ok) && !matches!(op, Op::Drop) {
            out.push(v("C13", "call-after-finish-attempt-accepted", format!("{}:{}", op_entry(op), if failed { "after-failure" } else { "after-success" }), format!("[{}] op {} ({}) after the finish attempt returned Ok", plan_desc(), i, op_entry(op))));
            return out;
        }
    }
    out
}

fn plan_hash(hist: u64, p: &FaultPlan) -> u64 {
    let mut h = Hasher64::new();
    h.u64(hist);
    for (c, f) in &p.at_call {
        h.u64(*c as u64);
        h.str(&format!("{:?}", f));
    }
    if let Some((b, k)) = p.die_at_byte {
        h.u64(b + 1);
        h.str(&format!("{:?}", k));
    }
    h.bytes(&p.pattern);
    h.finish()
}

pub fn kinds(tier: Tier) -> Vec<Fault> {
    let mut k: Vec<Fault> = Vec::new();
    // every constructible ErrorKind in both tiers: the library must not treat any kind specially
    let errs: &[ErrK] = &ERRK_ALL;
    let _ = &ERRK_QUICK;
    for e in errs {
        k.push(Fault::ErrOnce(*e));
    }
    k.push(Fault::Die(ErrK::Other));
    if tier == Tier::Thorough {
        k.push(Fault::Die(ErrK::StorageFull));
    }
    k.push(Fault::Zero);
    k.push(Fault::Short1);
    k.push(Fault::ShortHalf);
    k.push(Fault::ShortAllButOne);
    k.push(Fault::Interrupted(1));
    k.push(Fault::Interrupted(3));
    k
}

pub fn eval(case: &ProgCase, st: &mut RunStats, tier: Tier, run_seed: u64) -> Vec<Violation> {
    let r = match reference(case) {
        Ok(r) => r,
        Err(vi) => return vec![vi],
    };
    let heal = Some(r.finish_op as u32 + 1);
    let mut hist_hash = Hasher64::new();
    hist_hash.bytes(&r.file);
    hist_hash.u64(r.calls.len() as u64);
    let hh = hist_hash.finish();
    st.trace_hash = hh;
    st.count("write_calls_in_reference_finish", r.calls.len() as u64);
    st.count("reference_file_bytes", r.file.len() as u64);

    let mut run_one = |plan: FaultPlan, st: &mut RunStats| -> Vec<Violation> {
        let mut c = case.clone();
        c.faults = plan;
        c.faults.heal_at_op = heal;
        let ex = exec::run_prog(&c);
        st.evaluations += 1;
        let mut fired_any = false;
        for (k, n) in &ex.sink.fired {
            if *k != "heal" {
                fired_any = true;
            }
            *st.fired.entry(k).or_insert(0) += n;
        }
        if fired_any {
            st.nontrivial_many.push(plan_hash(hh, &c.faults));
        }
        let mut th = Hasher64::new();
        th.u64(st.trace_hash);
        th.u64(crate::checks::trace_hash_prog(&ex));
        st.trace_hash = th.finish();
        let vs = judge(&c, &r, &ex);
        for x in &vs {
            if !st.violating_cases.iter().any(|(c0, k0, _)| *c0 == x.class && *k0 == x.key) {
                st.violating_cases.push((x.class.clone(), x.key.clone(), serde_json::to_value(crate::checks::AnyCase::Prog(c.clone())).unwrap()));
            }
        }
        vs
    };

    // replay mode: one explicit plan
    if !case.faults.is_empty() {
        return run_one(case.faults.clone(), st);
    }

    let mut out: Vec<Violation> = Vec::new();
    let push = |out: &mut Vec<Violation>, vs: Vec<Violation>| {
        for x in vs {
            if !out.iter().any(|o| o.class == x.class && o.key == x.key) {
                out.push(x);
            }
        }
    };
    // (a) every write call x every kind
    let ks = kinds(tier);
    let w = r.calls.len() as u32;
    for call in 1..=w + 1 {
        // call w+1: a fault scheduled after the last write must change nothing
        for f in &ks {
            let plan = FaultPlan { at_call: vec![(call, *f)], ..Default::default() };
            let vs = run_one(plan, st);
            push(&mut out, vs);
        }
    }
    // (b) every byte offset (all of them for small files)
    let n = r.file.len() as u64;
    let mut offsets: Vec<u64> = Vec::new();
    if n <= 4096 {
        offsets.extend(0..=n);
    } else {
        let mut acc = 0u64;
        for c in &r.calls {
            for d in [-1i64, 0, 1] {
                let o = acc as i64 + d;
                if o >= 0 && o as u64 <= n {
                    offsets.push(o as u64);
                }
            }
            acc += *c as u64;
        }
        let mut rr = Rng::new(run_seed ^ 0xfa17);
        for _ in 0..512 {
            offsets.push(rr.below(n + 1));
        }
        offsets.sort();
        offsets.dedup();
    }
    let byte_kinds: &[ErrK] = if tier == Tier::Thorough { &[ErrK::Other, ErrK::StorageFull, ErrK::BrokenPipe] } else { &[ErrK::StorageFull] };
    for o in offsets {
        for k in byte_kinds {
            let plan = FaultPlan { die_at_byte: Some((o, *k)), ..Default::default() };
            let vs = run_one(plan, st);
            push(&mut out, vs);
        }
    }
    // (c) seeded schedules of short writes / Interrupted on every call, optionally with one fatal fault
    let mut rr = Rng::new(run_seed ^ 0x5eed);
    let schedules = tier.pick(24, 200);
    for _ in 0..schedules {
        let len = rr.range(1, 9) as usize;
        let mut pattern = Vec::new();
        for _ in 0..len {
            pattern.push(*rr.pick(&[0u8, 1, 2, 3, 4, 4, 1]));
        }
        let mut plan = FaultPlan { pattern, ..Default::default() };
        if rr.chance(1, 3) {
            let call = rr.range(1, (w as u64 * 3).max(2)) as u32;
            plan.at_call.push((call, *rr.pick(&ks)));
        }
        let vs = run_one(plan, st);
        push(&mut out, vs);
    }
    out
}
