//! The registered checks: per property a set of scenarios (generator + count),
//! and an evaluation function (execute + oracles) over explicit cases.

use crate::case::*;
use crate::exec::{self, ProgExec, Res};
use crate::gen::{self, FragKnobs, Knobs};
use crate::model;
use crate::oracle::{self, v, Violation};
use crate::rng::{Hasher64, Rng};
use serde::{Deserialize, Serialize};
use std::collections::BTreeMap;

#[derive(Clone, Copy, Debug, PartialEq, Eq)]
pub enum Tier {
    Quick,
    Thorough,
}
impl Tier {
    pub fn name(self) -> &'static str {
        match self {
            Tier::Quick => "quick",
            Tier::Thorough => "thorough",
        }
    }
    pub fn parse(s: &str) -> Option<Tier> {
        match s {
            "quick" => Some(Tier::Quick),
            "thorough" => Some(Tier::Thorough),
            _ => None,
        }
    }
    pub fn pick(self, quick: u64, thorough: u64) -> u64 {
        match self {
            Tier::Quick => quick,
            Tier::Thorough => thorough,
        }
    }
}

#[derive(Clone, Debug, Serialize, Deserialize)]
pub enum AnyCase {
    Prog(ProgCase),
    Frag(FragCase),
    Conc(crate::conc::ConcCase),
    Cli(crate::cli::CliCase),
    Stateless(crate::stateless::StatelessCase),
}

impl AnyCase {
    pub fn size(&self) -> usize {
        match self {
            AnyCase::Prog(c) => c.ops.len(),
            AnyCase::Frag(c) => c.ops.len(),
            AnyCase::Conc(c) => c.size(),
            AnyCase::Cli(_) => 1,
            AnyCase::Stateless(_) => 1,
        }
    }

    /// Payload bytes held by the case (gigabyte cases are reported as drawn, not minimised:
    /// the shrinker materialises its candidates).
    pub fn payload_bytes(&self) -> u64 {
        match self {
            AnyCase::Prog(c) => c.ops.iter().filter_map(|o| o.data()).map(|d| d.0.len() as u64).sum(),
            AnyCase::Frag(c) => c.ops.iter().map(|o| if let FragOp::Write { data, .. } = o { data.0.len() as u64 } else { 0 }).sum(),
            _ => 0,
        }
    }

    /// Simpler variants of this case, most aggressive first; each is built only when the iterator reaches it.
    pub fn shrink_candidates(&self) -> Box<dyn Iterator<Item = AnyCase> + '_> {
        match self {
            AnyCase::Prog(c) => Box::new(shrink_prog_steps(c).into_iter().map(move |s| AnyCase::Prog(apply_prog_shrink(c, &s)))),
            AnyCase::Frag(c) => Box::new(shrink_frag_steps(c).into_iter().map(move |s| AnyCase::Frag(apply_frag_shrink(c, &s)))),
            AnyCase::Conc(c) => Box::new(c.shrink().into_iter().map(AnyCase::Conc)),
            AnyCase::Cli(c) => Box::new(c.shrink().into_iter().map(AnyCase::Cli)),
            AnyCase::Stateless(_) => Box::new(std::iter::empty()),
        }
    }
}

fn chunk_removals(n: usize) -> Vec<(usize, usize)> {
    // (start, len) chunks: halves, quarters, ..., singles
    let mut out = Vec::new();
    let mut len = n / 2;
    while len >= 1 {
        let mut s = 0;
        while s < n {
            out.push((s, len.min(n - s)));
            s += len;
        }
        if len == 1 {
            break;
        }
        len /= 2;
    }
    out
}

/// One simplification of a progressive case (descriptors are cheap; the case is only built when tried —
/// a 70 000-operation history has 140 000 candidates).
#[derive(Clone, Debug)]
pub enum ProgShrink {
    Remove(usize, usize),
    ClearPattern,
    RemoveFault(usize),
    NoDie,
    NoHeal,
    NoMeta,
    ShortTitle,
    NoAudio,
    Halve(usize),
}

pub fn shrink_prog_steps(c: &ProgCase) -> Vec<ProgShrink> {
    let mut out = Vec::new();
    let n = c.ops.len();
    for (s, l) in chunk_removals(n) {
        if l == n {
            continue;
        }
        out.push(ProgShrink::Remove(s, l));
    }
    // faults
    if !c.faults.pattern.is_empty() {
        out.push(ProgShrink::ClearPattern);
    }
    for i in 0..c.faults.at_call.len() {
        out.push(ProgShrink::RemoveFault(i));
    }
    if c.faults.die_at_byte.is_some() {
        out.push(ProgShrink::NoDie);
    }
    if c.faults.heal_at_op.is_some() {
        out.push(ProgShrink::NoHeal);
    }
    // configuration
    if c.cfg.meta.is_some() {
        out.push(ProgShrink::NoMeta);
    }
    if let Some(m) = &c.cfg.meta {
        if m.title.as_ref().map(|t| t.len() > 4).unwrap_or(false) {
            out.push(ProgShrink::ShortTitle);
        }
    }
    if c.cfg.audio.is_some() && !c.ops.iter().any(|o| matches!(o, Op::Audio { .. } | Op::EncAudio { .. })) {
        out.push(ProgShrink::NoAudio);
    }
    // payloads: shorten big non-constructive payloads
    for (i, op) in c.ops.iter().enumerate() {
        if let Some(h) = op.data() {
            if h.0.len() > 64 && !op.cc() {
                out.push(ProgShrink::Halve(i));
            }
        }
    }
    out
}

pub fn apply_prog_shrink(c: &ProgCase, step: &ProgShrink) -> ProgCase {
    let mut d = c.clone();
    match step {
        ProgShrink::Remove(s, l) => {
            d.ops.drain(*s..*s + *l);
        }
        ProgShrink::ClearPattern => d.faults.pattern.clear(),
        ProgShrink::RemoveFault(i) => {
            d.faults.at_call.remove(*i);
        }
        ProgShrink::NoDie => d.faults.die_at_byte = None,
        ProgShrink::NoHeal => d.faults.heal_at_op = None,
        ProgShrink::NoMeta => d.cfg.meta = None,
        ProgShrink::ShortTitle => d.cfg.meta.as_mut().unwrap().title = Some("t".into()),
        ProgShrink::NoAudio => d.cfg.audio = None,
        ProgShrink::Halve(i) => {
            let dd = d.ops[*i].data_mut().unwrap();
            let n = dd.0.len() / 2;
            dd.0.truncate(n);
        }
    }
    d
}

#[derive(Clone, Debug)]
pub enum FragShrink {
    Remove(usize, usize),
    Trunc(usize),
}

pub fn shrink_frag_steps(c: &FragCase) -> Vec<FragShrink> {
    let mut out = Vec::new();
    let n = c.ops.len();
    for (s, l) in chunk_removals(n) {
        if l == n {
            continue;
        }
        out.push(FragShrink::Remove(s, l));
    }
    for (i, op) in c.ops.iter().enumerate() {
        if let FragOp::Write { data, .. } = op {
            if data.0.len() > 8 {
                out.push(FragShrink::Trunc(i));
            }
        }
    }
    out
}

pub fn apply_frag_shrink(c: &FragCase, step: &FragShrink) -> FragCase {
    let mut d = c.clone();
    match step {
        FragShrink::Remove(s, l) => {
            d.ops.drain(*s..*s + *l);
        }
        FragShrink::Trunc(i) => {
            if let FragOp::Write { data, .. } = &mut d.ops[*i] {
                data.0.truncate(8);
            }
        }
    }
    d
}

#[derive(Default)]
pub struct RunStats {
    pub evaluations: u64,
    pub nontrivial: Option<u64>,
    pub nontrivial_many: Vec<u64>,
    pub states: Vec<u64>,
    pub transitions: Vec<u64>,
    pub fired: BTreeMap<&'static str, u64>,
    pub counters: BTreeMap<String, u64>,
    pub media_secs: f64,
    pub trace_hash: u64,
    pub clock_jumps: (i64, i64),
    /// when the violating case is not the generated one (fault enumeration): (class, key, exact case to replay)
    pub violating_cases: Vec<(String, String, serde_json::Value)>,
}

impl RunStats {
    pub fn count(&mut self, k: &str, n: u64) {
        *self.counters.entry(k.to_string()).or_insert(0) += n;
    }
}

pub struct CheckDef {
    pub id: &'static str,
    pub level: &'static str,
    pub scenarios: fn(Tier) -> Vec<(&'static str, u64)>,
    pub gen: fn(&str, &mut Rng, Tier, u64) -> AnyCase,
    pub eval: fn(&str, &AnyCase, &mut RunStats, Tier) -> Vec<Violation>,
    pub rule: &'static str,
    pub fault_kinds: &'static [&'static str],
    pub real: &'static [&'static str],
    pub stubbed: &'static [&'static str],
    pub assumptions: &'static [&'static str],
    pub exhaustive_quick: bool,
    /// runs of this check legitimately take seconds (multi-GiB scenarios)
    pub slow_ok: bool,
}

pub fn find(id: &str) -> Option<&'static CheckDef> {
    ALL.iter().find(|d| d.id == id)
}

pub fn sample_view(scenario: &str, case: &AnyCase) -> serde_json::Value {
    // a compact, readable rendering of one explored case
    match case {
        AnyCase::Prog(c) => {
            let ops: Vec<String> = c
                .ops
                .iter()
                .take(24)
                .map(|o| match o {
                    Op::Video { pts, data, key, .. } => format!("write_video(pts={:?}, {}B, key={})", pts, data.0.len(), key),
                    Op::VideoDts { pts, dts, data, key, .. } => format!("write_video_with_dts(pts={:?}, dts={:?}, {}B, key={})", pts, dts, data.0.len(), key),
                    Op::Audio { pts, data } => format!("write_audio(pts={:?}, {}B)", pts, data.0.len()),
                    Op::EncVideo { data, dur_ms, .. } => format!("encode_video({}B, {}ms)", data.0.len(), dur_ms),
                    Op::EncAudio { data, samples } => format!("encode_audio({}B, {} samples)", data.0.len(), samples),
                    Op::Finish(k) => format!("finish[{:?}]", k),
                    o => o.kind().to_string(),
                })
                .collect();
            serde_json::json!({"scenario": scenario, "config": c.cfg, "ops_total": c.ops.len(), "ops_head": ops, "faults": c.faults})
        }
        AnyCase::Frag(c) => {
            let ops: Vec<String> = c
                .ops
                .iter()
                .take(24)
                .map(|o| match o {
                    FragOp::Write { pts, dts, data, sync } => format!("write_video(pts={}, dts={}, {}B, sync={})", pts, dts, data.0.len(), sync),
                    o => o.kind().to_string(),
                })
                .collect();
            serde_json::json!({"scenario": scenario, "codec": c.cfg.codec, "via_builder": c.cfg.via_builder, "timescale": c.cfg.timescale, "ops_total": c.ops.len(), "ops_head": ops})
        }
        AnyCase::Conc(c) => c.sample_view(scenario),
        AnyCase::Cli(c) => c.sample_view(scenario),
        AnyCase::Stateless(c) => serde_json::json!({"scenario": scenario, "call": c}),
    }
}

// ---------------------------------------------------------------- shared helpers

pub fn trace_hash_prog(ex: &ProgExec) -> u64 {
    let mut h = Hasher64::new();
    h.str(&ex.build.short());
    for o in &ex.ops {
        match &o.res {
            Res::Err { debug, .. } => h.str(debug),
            r => h.str(&r.short()),
        }
        if let Some(s) = &o.stats {
            h.u64(s.video_frames);
            h.u64(s.audio_frames);
            h.u64(s.duration_secs.to_bits());
            h.u64(s.bytes_written);
        }
    }
    for e in &ex.sink.events {
        h.u64(e.op as u64);
        h.u64(e.call as u64);
        h.u64(e.offset);
        h.u64(e.len as u64);
        h.str(&format!("{:?}", e.outcome));
    }
    h.bytes(&ex.sink.bytes);
    h.finish()
}

fn bucket(n: usize) -> u8 {
    match n {
        0 => 0,
        1 => 1,
        2 => 2,
        3..=5 => 3,
        6..=12 => 4,
        13..=60 => 5,
        _ => 6,
    }
}

/// Abstract projection of a run: distinct-case hash, abstract states and transitions.
pub fn abstract_prog(case: &ProgCase, ex: &ProgExec, st: &mut RunStats) -> u64 {
    let mut h = Hasher64::new();
    h.str(&format!("{:?}", case.cfg.video.as_ref().map(|v| v.codec)));
    h.str(&format!("{:?}", case.cfg.audio.as_ref().map(|a| a.codec)));
    h.u64(case.cfg.fast_start_effective() as u64);
    h.u64(case.cfg.meta.as_ref().map(|m| 1 + m.title.is_some() as u64 * 2 + m.ctime.is_some() as u64 * 4 + m.lang.is_some() as u64 * 8).unwrap_or(0));
    let mut state = Hasher64::new();
    let mut nv = 0usize;
    let mut na = 0usize;
    let mut finished = false;
    let mut prev_state = 0u64;
    for (i, op) in case.ops.iter().enumerate() {
        let r = &ex.ops[i].res;
        let oc = match r {
            Res::Ok => "ok".to_string(),
            Res::Err { ev, .. } => format!("{:?}", ev),
            Res::Panic { .. } => "panic".into(),
            Res::NoObject => "gone".into(),
        };
        let size_b = op.data().map(|d| bucket(d.0.len() / 16)).unwrap_or(0);
        if i < 48 {
            h.str(op.kind());
            h.str(&oc);
            h.u64(size_b as u64);
        }
        if r.is_ok() {
            match op {
                Op::Video { .. } | Op::VideoDts { .. } | Op::EncVideo { .. } => nv += 1,
                Op::Audio { .. } | Op::EncAudio { .. } => na += 1,
                Op::Finish(_) => finished = true,
                _ => {}
            }
        }
        state.0 = 0xcbf29ce484222325;
        state.u64(bucket(nv) as u64);
        state.u64(bucket(na) as u64);
        state.u64(finished as u64);
        state.str(&format!("{:?}", case.cfg.video.as_ref().map(|v| v.codec)));
        state.u64(case.cfg.audio_effective().is_some() as u64);
        let s = state.finish();
        st.states.push(s);
        let mut t = Hasher64::new();
        t.u64(prev_state);
        t.str(op.kind());
        t.str(&oc);
        t.u64(s);
        st.transitions.push(t.finish());
        prev_state = s;
    }
    h.u64(bucket(nv) as u64);
    h.u64(bucket(na) as u64);
    for (c, f) in &case.faults.at_call {
        h.u64(*c as u64);
        h.str(f.name());
    }
    h.u64(case.faults.die_at_byte.map(|x| x.0 + 1).unwrap_or(0));
    h.bytes(&case.faults.pattern);
    h.finish()
}

fn media_secs(lm: &model::LogicalMovie) -> f64 {
    let span = |t: &[model::MSample]| -> f64 {
        if t.len() < 2 {
            0.0
        } else {
            let a = t.first().unwrap().dts_secs;
            let b = t.last().unwrap().dts_secs;
            if a.is_finite() && b.is_finite() && b >= a {
                (b - a).min(1e9)
            } else {
                0.0
            }
        }
    };
    span(&lm.video).max(span(&lm.audio))
}

fn note_fired(st: &mut RunStats, ex: &ProgExec) {
    for (k, n) in &ex.sink.fired {
        *st.fired.entry(k).or_insert(0) += n;
    }
}

fn as_prog(case: &AnyCase) -> &ProgCase {
    match case {
        AnyCase::Prog(c) => c,
        _ => panic!("harness: expected a progressive case"),
    }
}
fn as_frag(case: &AnyCase) -> &FragCase {
    match case {
        AnyCase::Frag(c) => c,
        _ => panic!("harness: expected a fragmented case"),
    }
}

/// Common front part: run, hash, abstract; returns exec and logical movie.
fn run_and_model(case: &ProgCase, st: &mut RunStats) -> (ProgExec, model::LogicalMovie) {
    let ex = exec::run_prog(case);
    st.trace_hash = trace_hash_prog(&ex);
    note_fired(st, &ex);
    let lm = model::logical_movie(case, &ex.accepted());
    st.media_secs += media_secs(&lm);
    (ex, lm)
}

const REAL_LIB: &[&str] = &["muxide library (api, muxer::mp4, codec::*, fragmented, validation, invariant_ppt) compiled from /repo with overflow-checks and debug-assertions", "std::io::Write::write_all"];
const STUB_PROG: &[&str] = &["sink (SimSink: seeded fault plan per write call)", "caller (seeded operation history)"];
const ASSUME_READER: &[&str] = &[
    "the independent ISO-BMFF reader (sim/src/reader.rs) and the reference model (sim/src/model.rs) are trusted; both are unit-tested on their own (cargo test in /verif/sim)",
    "sampling, not proof: a clean batch is evidence for the explored seeds only",
];
const FK_BENIGN: &[&str] = &["short_write", "interrupted"];

fn knobs_functional(tier: Tier) -> Knobs {
    let mut k = Knobs::functional();
    // one long run in a hundred has thousands to tens of thousands of tiny frames (count thresholds)
    k.huge_of_long_pct = 1;
    if tier == Tier::Thorough {
        k.big_frames = 20;
        k.long_max = 400;
    }
    k
}

// ================================================================ C01

fn c01_scen(t: Tier) -> Vec<(&'static str, u64)> {
    vec![("fault-free", t.pick(400_000, 10_000_000)), ("benign-faults", t.pick(200_000, 5_000_000))]
}
fn c01_gen(sc: &str, rng: &mut Rng, t: Tier, _i: u64) -> AnyCase {
    let mut k = knobs_functional(t);
    // "accepted sequence of writes": rejected calls in between must not disturb what the tables say
    k.invalid_pct = 3;
    if sc == "benign-faults" {
        k.fault_mode = 1;
        k.fault_pct = 100;
    }
    AnyCase::Prog(gen::gen_prog(rng, &k).0)
}
fn c01_eval(_sc: &str, case: &AnyCase, st: &mut RunStats, _t: Tier) -> Vec<Violation> {
    let case = as_prog(case);
    let (ex, lm) = run_and_model(case, st);
    let mut out = oracle::panics("C01", case, &ex);
    if let Some((_, bytes)) = oracle::complete_file(case, &ex) {
        out.extend(oracle::c01_addressing("C01", case, &ex, &lm, bytes));
        if lm.video.len() + lm.audio.len() >= 2 {
            st.nontrivial = Some(abstract_prog(case, &ex, st));
        }
    } else if ex.first_panic().is_none() && case.ops.iter().any(|o| matches!(o, Op::Finish(_))) && case.faults.only_benign() && ex.build.is_ok() && !lm.inexact {
        // a finish must succeed in these workloads (valid histories, benign sink; not judged when an accepted
        // timestamp lies beyond 2^53 ticks - refusing what cannot be stated exactly is what C16 asks for)
        if let Some(i) = case.ops.iter().position(|o| matches!(o, Op::Finish(_))) {
            if !ex.ops[i].res.is_ok() {
                out.push(v("C01", "finish-failed", oracle::normalise(&ex.ops[i].res.short()), format!("finish (op {}) of a valid history returned {}", i, ex.ops[i].res.short())));
            }
        }
    }
    out
}

// ================================================================ C02

fn c02_scen(t: Tier) -> Vec<(&'static str, u64)> {
    vec![("progressive", t.pick(400_000, 8_000_000)), ("fragmented", t.pick(300_000, 6_000_000)), ("after-failed-finish", t.pick(100_000, 2_000_000))]
}
fn c02_gen(sc: &str, rng: &mut Rng, t: Tier, i: u64) -> AnyCase {
    if sc == "after-failed-finish" {
        // a finish that fails in the sink, then further finish attempts: whatever the sink holds once a finish has
        // reported success is "a byte stream the library emitted" and must be a well-formed file
        return c06_gen("failing-sink", rng, t, i);
    }
    if sc == "fragmented" {
        AnyCase::Frag(gen::gen_frag(rng, &FragKnobs { reject_pct: 5, boundary: false, big: true, long_pct: 3 }))
    } else {
        let mut k = knobs_functional(t);
        k.invalid_pct = 4; // some histories with rejected calls, zero frames, etc.
        AnyCase::Prog(gen::gen_prog(rng, &k).0)
    }
}
fn c02_eval(sc: &str, case: &AnyCase, st: &mut RunStats, _t: Tier) -> Vec<Violation> {
    if sc == "fragmented" {
        return crate::frag::c02_eval_frag(as_frag(case), st);
    }
    let case = as_prog(case);
    let (ex, _lm) = run_and_model(case, st);
    let mut out = oracle::panics("C02", case, &ex);
    if sc == "after-failed-finish" {
        // some finish attempt failed; if a later one reported success the sink must hold exactly one well-formed file
        let ok_finish = case.ops.iter().enumerate().any(|(i, o)| matches!(o, Op::Finish(_)) && ex.ops.get(i).map(|r| r.res.is_ok()).unwrap_or(false));
        let failed_before = ex.sink.fatal_fault_seen();
        if ok_finish && failed_before && out.is_empty() {
            for mut x in oracle::c02_structure("C02", case, &ex.sink.bytes) {
                x.key = format!("after-failed-finish:{}", x.key);
                x.detail = format!("a finish attempt failed in the sink, a later one reported success, and the sink now holds {} bytes: {}", ex.sink.bytes.len(), x.detail);
                out.push(x);
            }
            st.nontrivial = Some(abstract_prog(case, &ex, st));
        }
        return out;
    }
    if let Some((_, bytes)) = oracle::complete_file(case, &ex) {
        out.extend(oracle::c02_structure("C02", case, bytes));
        st.nontrivial = Some(abstract_prog(case, &ex, st));
    }
    out
}

// ================================================================ C03

fn c03_scen(t: Tier) -> Vec<(&'static str, u64)> {
    vec![("timing", t.pick(500_000, 12_000_000)), ("long-runs", t.pick(1_200, 12_000)), ("boundary", t.pick(60_000, 1_000_000))]
}
fn c03_gen(sc: &str, rng: &mut Rng, t: Tier, _i: u64) -> AnyCase {
    if sc == "boundary" {
        // gaps and totals around 2^32 ticks, one track much longer than the other: the declared media duration
        // must still be the sum of the sample durations (or the call that made it unrepresentable was refused)
        return AnyCase::Prog(gen::gen_boundary(rng));
    }
    let mut k = knobs_functional(t);
    k.meta_pct = 10;
    k.bframes_pct = 45;
    // a few rejected calls: the timing of the accepted frames must not depend on them
    k.invalid_pct = 4;
    if sc == "long-runs" {
        k.long_pct = 100;
        k.long_min = 400;
        k.long_max = t.pick(1500, 4000) as usize;
        k.audio_pct = 30;
    }
    AnyCase::Prog(gen::gen_prog(rng, &k).0)
}
fn c03_eval(_sc: &str, case: &AnyCase, st: &mut RunStats, _t: Tier) -> Vec<Violation> {
    let case = as_prog(case);
    let (ex, lm) = run_and_model(case, st);
    let mut out = oracle::panics("C03", case, &ex);
    if let Some((_, bytes)) = oracle::complete_file(case, &ex) {
        match oracle::parse_file(bytes) {
            Ok(p) => {
                out.extend(oracle::c03_timing("C03", &lm, &p.movie, case.cfg.audio_effective().is_some()));
                if lm.video.len() >= 2 && !lm.inexact {
                    st.nontrivial = Some(abstract_prog(case, &ex, st));
                }
            }
            Err(e) => out.push(v("C03", "file-unreadable", oracle::normalise(&e), e)),
        }
    }
    out
}

// ================================================================ C04

fn c04_scen(t: Tier) -> Vec<(&'static str, u64)> {
    vec![("contract", t.pick(1_000_000, 20_000_000)), ("contract-failing-sink", t.pick(200_000, 4_000_000))]
}
fn c04_gen(sc: &str, rng: &mut Rng, _t: Tier, _i: u64) -> AnyCase {
    let mut k = Knobs::contract();
    k.long_pct = 1;
    if sc == "contract-failing-sink" {
        // muxer states that only a failing sink produces: a finish that was called and failed, then more calls
        // ("cannot write frames after calling finish()" is the documented wording of AlreadyFinished)
        k.fault_mode = 2;
        k.fault_pct = 100;
        k.after_finish_pct = 100;
        k.no_finish_pct = 0;
        k.invalid_pct = 8;
    }
    AnyCase::Prog(gen::gen_prog(rng, &k).0)
}
fn c04_eval(_sc: &str, case: &AnyCase, st: &mut RunStats, _t: Tier) -> Vec<Violation> {
    let case = as_prog(case);
    let (ex, _lm) = run_and_model(case, st);
    let mut cs = oracle::ContractStats { judged: 0, must_accept: 0, must_reject: 0, either: 0, either_why: BTreeMap::new() };
    let mut out = oracle::panics("C04", case, &ex);
    out.extend(oracle::c04_contract("C04", case, &ex, &mut cs));
    st.evaluations = cs.judged.max(1);
    st.count("judged_calls", cs.judged);
    st.count("verdict_must_accept", cs.must_accept);
    st.count("verdict_must_reject", cs.must_reject);
    st.count("verdict_either", cs.either);
    for (k, n) in cs.either_why {
        st.count(&format!("either: {}", k), n);
    }
    if cs.must_reject > 0 || cs.must_accept > 1 {
        st.nontrivial = Some(abstract_prog(case, &ex, st));
    }
    out
}

// ================================================================ C05

fn c05_scen(t: Tier) -> Vec<(&'static str, u64)> {
    vec![("progressive", t.pick(300_000, 6_000_000)), ("fragmented", t.pick(200_000, 4_000_000))]
}
fn c05_gen(sc: &str, rng: &mut Rng, _t: Tier, _i: u64) -> AnyCase {
    if sc == "fragmented" {
        AnyCase::Frag(gen::gen_frag(rng, &FragKnobs { reject_pct: 25, boundary: false, big: false, long_pct: 2 }))
    } else {
        let mut k = Knobs::contract();
        k.invalid_pct = 18;
        k.after_finish_pct = 5;
        k.no_finish_pct = 0;
        k.no_video_cfg_pct = 0;
        AnyCase::Prog(gen::gen_prog(rng, &k).0)
    }
}
fn c05_eval(sc: &str, case: &AnyCase, st: &mut RunStats, _t: Tier) -> Vec<Violation> {
    if sc == "fragmented" {
        return crate::frag::c05_eval_frag(as_frag(case), st);
    }
    let case = as_prog(case);
    let (ex, _lm) = run_and_model(case, st);
    let mut out = oracle::panics("C05", case, &ex);
    if ex.first_panic().is_some() || !ex.build.is_ok() {
        return out;
    }
    // H' = H without rejected frame-writing calls: each one alone (attribution), then all together
    let rejected: Vec<usize> = case.ops.iter().enumerate().filter(|(i, o)| o.is_write() && ex.ops[*i].res.is_err()).map(|(i, _)| i).collect();
    if rejected.is_empty() {
        return out;
    }
    let mut subsets: Vec<Vec<usize>> = Vec::new();
    let n = rejected.len();
    let mut picks = vec![0, n - 1, n / 2, n / 3];
    picks.sort();
    picks.dedup();
    for p in picks {
        subsets.push(vec![rejected[p]]);
    }
    if n > 1 {
        subsets.push(rejected.clone());
    }
    st.evaluations = 1;
    for sub in subsets {
        st.evaluations += 1;
        let mut c2 = case.clone();
        let mut keep_idx: Vec<usize> = Vec::new();
        c2.ops = case
            .ops
            .iter()
            .enumerate()
            .filter(|(i, _)| !sub.contains(i))
            .map(|(i, o)| {
                keep_idx.push(i);
                o.clone()
            })
            .collect();
        let ex2 = exec::run_prog(&c2);
        if let Some((j, msg, loc)) = ex2.first_panic() {
            out.push(v("C05", "panic", format!("{}:{}", oracle::op_entry(&c2.ops[j]), oracle::normalise(msg)), format!("history without rejected calls panicked at op {}: {} at {}", j, msg, loc)));
            return out;
        }
        let reasons: Vec<String> = sub.iter().map(|&i| format!("{}:{:?}", oracle::op_entry(&case.ops[i]), ex.ops[i].res.ev().unwrap())).collect();
        let key_reason = if sub.len() == 1 { reasons[0].clone() } else { "several".to_string() };
        for (j, &i) in keep_idx.iter().enumerate() {
            let a = &ex.ops[i];
            let b = &ex2.ops[j];
            let same = match (&a.res, &b.res) {
                (Res::Err { debug: d1, .. }, Res::Err { debug: d2, .. }) => d1 == d2,
                (x, y) => x == y,
            };
            if !same {
                out.push(v(
                    "C05",
                    "later-decision-differs",
                    format!("after:{} then:{}", key_reason, oracle::op_entry(&case.ops[i])),
                    format!("op {} ({}) returned {} in the history containing the rejected call(s) {:?} at ops {:?} but {} without them", i, oracle::op_entry(&case.ops[i]), a.res.short(), reasons, sub, b.res.short()),
                ));
                return out;
            }
            if a.stats != b.stats {
                out.push(v(
                    "C05",
                    "stats-differ",
                    format!("after:{}", key_reason),
                    format!("finish statistics {:?} with the rejected call(s) {:?} at ops {:?}, {:?} without them", a.stats, reasons, sub, b.stats),
                ));
                return out;
            }
        }
        if ex.sink.bytes != ex2.sink.bytes {
            let pos = ex.sink.bytes.iter().zip(ex2.sink.bytes.iter()).position(|(a, b)| a != b).unwrap_or(ex.sink.bytes.len().min(ex2.sink.bytes.len()));
            out.push(v(
                "C05",
                "file-differs",
                format!("after:{}", key_reason),
                format!("finished files differ from byte {} (lengths {} / {}) between the history containing the rejected call(s) {:?} at ops {:?} and the one without", pos, ex.sink.bytes.len(), ex2.sink.bytes.len(), reasons, sub),
            ));
            return out;
        }
    }
    let mut h = Hasher64::new();
    h.u64(abstract_prog(case, &ex, st));
    st.nontrivial = Some(h.finish());
    out
}

// ================================================================ C06

fn c06_scen(t: Tier) -> Vec<(&'static str, u64)> {
    vec![("finalise", t.pick(400_000, 8_000_000)), ("benign-faults", t.pick(200_000, 4_000_000)), ("failing-sink", t.pick(200_000, 4_000_000))]
}
fn c06_gen(sc: &str, rng: &mut Rng, t: Tier, _i: u64) -> AnyCase {
    let mut k = knobs_functional(t);
    k.after_finish_pct = 60;
    k.no_finish_pct = 8;
    k.invalid_pct = 5;
    if sc == "benign-faults" {
        k.fault_mode = 1;
        k.fault_pct = 100;
    }
    if sc == "failing-sink" {
        // a finish attempt that fails (transiently or for good), followed by further finish attempts and writes
        k.fault_mode = 2;
        k.fault_pct = 100;
        k.after_finish_pct = 100;
        k.invalid_pct = 0;
        k.long_pct = 0;
        let mut c = gen::gen_prog(rng, &k).0;
        if let Some(pos) = c.ops.iter().position(|o| matches!(o, Op::Finish(_))) {
            // make the first attempts non-consuming so that the object survives them
            c.ops[pos] = Op::Finish(if rng.bool() { FinishKind::InPlace } else { FinishKind::InPlaceStats });
            let extra = rng.range(1, 3);
            for _ in 0..extra {
                c.ops.insert(pos + 1, Op::Finish(*rng.pick(&[FinishKind::InPlace, FinishKind::InPlaceStats, FinishKind::InPlaceStats])));
            }
        }
        if c.faults.at_call.iter().all(|(_, f)| f.benign()) && c.faults.die_at_byte.is_none() {
            c.faults.at_call.push((rng.range(1, 6) as u32, Fault::ErrOnce(*rng.pick(&ERRK_ALL))));
        }
        return AnyCase::Prog(c);
    }
    AnyCase::Prog(gen::gen_prog(rng, &k).0)
}
fn c06_eval(_sc: &str, case: &AnyCase, st: &mut RunStats, _t: Tier) -> Vec<Violation> {
    let case = as_prog(case);
    let (ex, lm) = run_and_model(case, st);
    let mut out = oracle::panics("C06", case, &ex);
    out.extend(oracle::c06_finalise("C06", case, &ex, &lm));
    if ex.finished_ok(case).is_some() {
        st.nontrivial = Some(abstract_prog(case, &ex, st));
    }
    out
}

// ================================================================ C08

fn c08_scen(t: Tier) -> Vec<(&'static str, u64)> {
    vec![("pairs", t.pick(250_000, 5_000_000))]
}
fn c08_gen(_sc: &str, rng: &mut Rng, t: Tier, _i: u64) -> AnyCase {
    let mut k = knobs_functional(t);
    k.meta_pct = 70;
    k.long_title_pct = 10;
    AnyCase::Prog(gen::gen_prog(rng, &k).0)
}
fn c08_eval(_sc: &str, case: &AnyCase, st: &mut RunStats, _t: Tier) -> Vec<Violation> {
    let case = as_prog(case);
    let mut on = case.clone();
    on.cfg.fast_start = Some(true);
    let mut off = case.clone();
    off.cfg.fast_start = Some(false);
    let ex_on = exec::run_prog(&on);
    let ex_off = exec::run_prog(&off);
    st.evaluations = 2;
    let mut h = Hasher64::new();
    h.u64(trace_hash_prog(&ex_on));
    h.u64(trace_hash_prog(&ex_off));
    st.trace_hash = h.finish();
    let mut out = oracle::panics("C08", &on, &ex_on);
    out.extend(oracle::panics("C08", &off, &ex_off));
    let (b_on, b_off) = match (oracle::complete_file(&on, &ex_on), oracle::complete_file(&off, &ex_off)) {
        (Some(a), Some(b)) => (a.1, b.1),
        (None, None) => return out,
        _ => {
            out.push(v("C08", "finish-outcome-differs", "", "finish succeeds in one layout only".to_string()));
            return out;
        }
    };
    // results of all calls identical
    for i in 0..case.ops.len() {
        if ex_on.ops[i].res != ex_off.ops[i].res {
            out.push(v("C08", "call-result-differs", oracle::op_entry(&case.ops[i]), format!("op {}: {} with fast start, {} without", i, ex_on.ops[i].res.short(), ex_off.ops[i].res.short())));
            return out;
        }
    }
    let lm = model::logical_movie(&on, &ex_on.accepted());
    st.media_secs += media_secs(&lm);
    for (name, c, ex, b) in [("fast-start", &on, &ex_on, b_on), ("standard", &off, &ex_off, b_off)] {
        for mut x in oracle::c01_addressing("C08", c, ex, &lm, b) {
            x.key = format!("{}:{}", name, x.key);
            x.class = x.class.replace("C08/", "C08/addressing-");
            out.push(x);
        }
    }
    if !out.is_empty() {
        return out;
    }
    let (p_on, p_off) = match (oracle::parse_file(b_on), oracle::parse_file(b_off)) {
        (Ok(a), Ok(b)) => (a, b),
        _ => return out,
    };
    let has_samples = !lm.video.is_empty() || !lm.audio.is_empty();
    let want_on: Vec<&str> = vec!["ftyp", "moov", "mdat"];
    let want_off: Vec<&str> = if has_samples { vec!["ftyp", "mdat", "moov"] } else { vec!["ftyp", "moov"] };
    let top_on: Vec<&str> = p_on.movie.top.iter().map(|s| s.as_str()).collect();
    let top_off: Vec<&str> = p_off.movie.top.iter().map(|s| s.as_str()).collect();
    if top_on != want_on && !(top_on == ["ftyp", "moov"] && !has_samples) {
        out.push(v("C08", "layout", "fast-start", format!("fast-start layout is {:?}, expected {:?}", top_on, want_on)));
    }
    if top_off != want_off && !(top_off == ["ftyp", "mdat", "moov"] && !has_samples) {
        out.push(v("C08", "layout", "standard", format!("standard layout is {:?}, expected {:?}", top_off, want_off)));
    }
    // identical apart from chunk offsets
    let strip = |m: &crate::reader::Movie| -> Vec<String> {
        let mut d = Vec::new();
        d.push(format!("mvhd ts={} dur={} v={} next={}", m.mvhd_timescale, m.mvhd_duration, m.mvhd_version, m.next_track_id));
        for t in &m.tracks {
            d.push(format!(
                "trak id={} h={:?} ts={} dur={} lang={} stsd={} stts={:?} ctts={:?} stsc={:?} stsz={:?} stss={:?} chunks={} elst={:?} tkhd={:#x}/{}",
                t.track_id,
                t.handler,
                t.timescale,
                t.mdhd_duration,
                t.language,
                crate::case::to_hex(&t.stsd_entry),
                t.stts,
                t.ctts,
                t.stsc,
                t.stsz,
                t.stss,
                t.chunk_offsets.len(),
                t.elst,
                t.tkhd_flags,
                t.tkhd_payload_len
            ));
        }
        d.push(format!("udta={:?}", m.udta.as_ref().map(|u| crate::case::to_hex(u))));
        d
    };
    let a = strip(&p_on.movie);
    let b = strip(&p_off.movie);
    if a != b {
        let i = a.iter().zip(b.iter()).position(|(x, y)| x != y).unwrap_or(0);
        let what = a.get(i).map(|s| s.split(' ').next().unwrap_or("").to_string()).unwrap_or_default();
        out.push(v("C08", "description-differs", what, format!("the two layouts describe different movies; first difference:\n  fast start: {}\n  standard:   {}", a.get(i).map(|s| &s[..s.len().min(300)]).unwrap_or(""), b.get(i).map(|s| &s[..s.len().min(300)]).unwrap_or(""))));
    }
    if has_samples {
        let mut hh = Hasher64::new();
        hh.u64(abstract_prog(&on, &ex_on, st));
        st.nontrivial = Some(hh.finish());
    }
    out
}

// ================================================================ C09

fn c09_scen(t: Tier) -> Vec<(&'static str, u64)> {
    vec![("av-sync", t.pick(400_000, 8_000_000))]
}
fn c09_gen(_sc: &str, rng: &mut Rng, t: Tier, _i: u64) -> AnyCase {
    let mut k = knobs_functional(t);
    k.audio_pct = 100;
    k.start_offset_pct = 60;
    k.meta_pct = 10;
    k.enc_api_pct = 4;
    let mut cfg = gen::draw_cfg(rng, &k);
    if cfg.audio_effective().is_none() {
        cfg.audio = Some(AudioCfg { codec: ACodec::AacLc, rate: 48000, channels: 2, alias: false });
    }
    AnyCase::Prog(gen::gen_prog_with_cfg(rng, &k, cfg).0)
}
fn c09_eval(_sc: &str, case: &AnyCase, st: &mut RunStats, _t: Tier) -> Vec<Violation> {
    let case = as_prog(case);
    let (ex, lm) = run_and_model(case, st);
    let mut out = oracle::panics("C09", case, &ex);
    if let Some((_, bytes)) = oracle::complete_file(case, &ex) {
        if let Ok(p) = oracle::parse_file(bytes) {
            out.extend(oracle::c09_sync("C09", &lm, &p.movie));
            if !lm.audio.is_empty() && !lm.video.is_empty() && !lm.inexact {
                st.nontrivial = Some(abstract_prog(case, &ex, st));
                let differ = lm.audio[0].pts.exact != lm.video[0].pts.exact;
                st.count(if differ { "histories_with_different_start_times" } else { "histories_with_equal_start_times" }, 1);
            }
        }
    }
    out
}

// ================================================================ C15

fn c15_scen(t: Tier) -> Vec<(&'static str, u64)> {
    vec![("interleave", t.pick(400_000, 8_000_000))]
}
fn c15_gen(_sc: &str, rng: &mut Rng, t: Tier, _i: u64) -> AnyCase {
    let mut k = knobs_functional(t);
    k.audio_pct = 100;
    k.adversarial_order_pct = 70;
    k.meta_pct = 10;
    k.start_offset_pct = 15;
    let mut cfg = gen::draw_cfg(rng, &k);
    if cfg.audio_effective().is_none() {
        cfg.audio = Some(AudioCfg { codec: ACodec::Opus, rate: 48000, channels: 2, alias: false });
    }
    AnyCase::Prog(gen::gen_prog_with_cfg(rng, &k, cfg).0)
}
fn c15_eval(_sc: &str, case: &AnyCase, st: &mut RunStats, _t: Tier) -> Vec<Violation> {
    let case = as_prog(case);
    let (ex, lm) = run_and_model(case, st);
    let mut out = oracle::panics("C15", case, &ex);
    if let Some((_, bytes)) = oracle::complete_file(case, &ex) {
        // "stored in the media data": the order the tables describe must be where the bytes really are
        for mut x in oracle::c01_addressing("C15", case, &ex, &lm, bytes) {
            x.class = x.class.replace("C15/", "C15/addressing-");
            out.push(x);
        }
        if let Ok(p) = oracle::parse_file(bytes) {
            out.extend(oracle::c15_interleave("C15", &lm, &p.movie));
            if !lm.audio.is_empty() && lm.video.len() >= 2 {
                st.nontrivial = Some(abstract_prog(case, &ex, st));
            }
        }
    }
    out
}

// ================================================================ C10 / C11

fn c10_scen(t: Tier) -> Vec<(&'static str, u64)> {
    vec![("interleavings", t.pick(1_000_000, 20_000_000))]
}
fn c10_gen(_sc: &str, rng: &mut Rng, t: Tier, _i: u64) -> AnyCase {
    AnyCase::Frag(gen::gen_frag(rng, &FragKnobs { reject_pct: 12, boundary: false, big: true, long_pct: 3 }))
}
fn c10_eval(_sc: &str, case: &AnyCase, st: &mut RunStats, _t: Tier) -> Vec<Violation> {
    crate::frag::c10_eval(as_frag(case), st)
}
fn c11_scen(t: Tier) -> Vec<(&'static str, u64)> {
    vec![("timeline", t.pick(1_000_000, 20_000_000))]
}
fn c11_gen(_sc: &str, rng: &mut Rng, _t: Tier, _i: u64) -> AnyCase {
    AnyCase::Frag(gen::gen_frag(rng, &FragKnobs { reject_pct: 4, boundary: false, big: false, long_pct: 5 }))
}
fn c11_eval(_sc: &str, case: &AnyCase, st: &mut RunStats, _t: Tier) -> Vec<Violation> {
    crate::frag::c11_eval(as_frag(case), st)
}

const STUB_FRAG: &[&str] = &["caller (seeded write/flush/query interleaving)"];

// ================================================================ C12

fn c12_scen(t: Tier) -> Vec<(&'static str, u64)> {
    vec![("prog-adversarial", t.pick(600_000, 12_000_000)), ("frag-adversarial", t.pick(400_000, 8_000_000)), ("stateless", t.pick(200_000, 4_000_000))]
}
fn c12_knobs() -> Knobs {
    let mut k = Knobs::contract();
    k.invalid_pct = 35;
    k.extreme_cfg_pct = 15;
    k.fault_mode = 2;
    k.fault_pct = 40;
    k.after_finish_pct = 50;
    k.no_finish_pct = 10;
    k.long_pct = 1;
    k.no_video_cfg_pct = 3;
    k.mixed_api_pct = 25;
    k.enc_api_pct = 25;
    k
}
fn c12_gen(sc: &str, rng: &mut Rng, _t: Tier, _i: u64) -> AnyCase {
    match sc {
        "frag-adversarial" => {
            let mut c = gen::gen_frag(rng, &FragKnobs { reject_pct: 15, boundary: true, big: false, long_pct: 2 });
            // extremes for every integer argument
            if rng.chance(1, 4) && !c.cfg.via_builder {
                c.cfg.timescale = *rng.pick(&[0u32, 1, u32::MAX]);
            }
            if rng.chance(1, 3) {
                let ex = [0u64, 1, (1 << 31) - 1, 1 << 31, (1 << 32) - 1, 1 << 32, (1 << 63) - 1, 1 << 63, (1 << 63) + 1, u64::MAX - 1, u64::MAX];
                for op in c.ops.iter_mut() {
                    if let FragOp::Write { pts, dts, .. } = op {
                        if rng.chance(1, 3) {
                            *pts = *rng.pick(&ex);
                        }
                        if rng.chance(1, 4) {
                            *dts = *rng.pick(&ex);
                        }
                    }
                }
            }
            AnyCase::Frag(c)
        }
        "stateless" => AnyCase::Stateless(crate::stateless::gen(rng)),
        _ => {
            let k = c12_knobs();
            let mut c = gen::gen_prog(rng, &k).0;
            // extremes for metadata and convenience-call arguments
            if rng.chance(1, 6) {
                let m = c.cfg.meta.get_or_insert_with(MetaCfg::default);
                m.ctime = Some(*rng.pick(&[u64::MAX, u64::MAX / 2, 253402300800, 1 << 40, 1 << 50, 86400 * 366 * 400]));
            }
            if rng.chance(1, 6) {
                let m = c.cfg.meta.get_or_insert_with(MetaCfg::default);
                m.lang = Some(rng.pick(&["", "e", "ENGLISH", "日本語", "\u{0}\u{0}\u{0}", "🎬🎬🎬", "~~~"]).to_string());
            }
            if rng.chance(1, 8) {
                // timestamps that differ by astronomically much
                // includes the band just below u64::MAX ticks (2^64/90000 s = 204963823041217.07 s), where a
                // non-saturated timestamp is followed by saturated ones
                let ex = [0.0f64, 1e9, 1.0248e14, 1.03e14, 2.0496382e14, 204_963_823_000_000.0, 204_963_823_041_000.0, 2.05e14, 1e15, 1e18, 1e300, 1.7976931348623157e308];
                for op in c.ops.iter_mut() {
                    match op {
                        Op::VideoDts { pts, dts, .. } => {
                            if rng.chance(1, 3) {
                                *pts = F(*rng.pick(&ex));
                            }
                            if rng.chance(1, 3) {
                                *dts = F(*rng.pick(&ex));
                            }
                        }
                        Op::Video { pts, .. } | Op::Audio { pts, .. } => {
                            if rng.chance(1, 4) {
                                *pts = F(*rng.pick(&ex));
                            }
                        }
                        _ => {}
                    }
                }
            }
            if rng.chance(1, 400) {
                // a pathologically long, repetitive "frame"
                let unit: &[u8] = *rng.pick(&[&[0u8, 0, 1][..], &[0, 0, 0, 1], &[0], &[0xff], &[0x80], &[0x0a, 0x80]]);
                let reps = *rng.pick(&[100_000usize, 200_000]);
                let mut d = Vec::with_capacity(unit.len() * reps);
                for _ in 0..reps {
                    d.extend_from_slice(unit);
                }
                let pos = rng.usize(c.ops.len() + 1);
                let op = match rng.below(3) {
                    0 => Op::Video { pts: F(0.0), data: Hex(d), key: true, cc: false },
                    1 => Op::EncVideo { data: Hex(d), dur_ms: 33, cc: false },
                    _ => Op::Audio { pts: F(0.0), data: Hex(d) },
                };
                c.ops.insert(pos.min(c.ops.len()), op);
            }
            if rng.chance(1, 12) {
                // an ascending run of extreme timestamps over the video frames (each step legal for the API checks)
                let ladder = [1.0248e14f64, 2.0496380e14, 2.04963821e14, 204_963_823_000_000.0, 204_963_823_040_000.0, 1e300, 1.7976931348623157e308];
                let mut li = rng.usize(4);
                for op in c.ops.iter_mut() {
                    if li >= ladder.len() {
                        break;
                    }
                    match op {
                        Op::Video { pts, .. } => {
                            *pts = F(ladder[li]);
                            li += 1;
                        }
                        Op::VideoDts { pts, dts, .. } => {
                            *pts = F(ladder[li]);
                            *dts = F(ladder[li]);
                            li += 1;
                        }
                        Op::Audio { pts, .. } => {
                            if rng.bool() {
                                *pts = F(ladder[li]);
                            }
                        }
                        _ => {}
                    }
                }
            }
            AnyCase::Prog(c)
        }
    }
}
fn c12_eval(sc: &str, case: &AnyCase, st: &mut RunStats, _t: Tier) -> Vec<Violation> {
    match (sc, case) {
        (_, AnyCase::Stateless(c)) => crate::stateless::eval(c, st),
        (_, AnyCase::Frag(c)) => {
            let ex = exec::run_frag(c);
            st.trace_hash = crate::frag::trace_hash_frag(&ex);
            st.nontrivial = Some(crate::frag::abstract_frag(c, &ex, st));
            crate::frag::frag_panics("C12", c, &ex)
        }
        (_, AnyCase::Prog(c)) => {
            let total: usize = c.ops.iter().filter_map(|o| o.data()).map(|d| d.0.len()).sum();
            if total > 200_000 {
                // long inputs on a 2 MiB stack (see stateless::eval)
                let c2 = c.clone();
                let h = std::thread::Builder::new().stack_size(2 << 20).spawn(move || {
                    let mut st2 = RunStats::default();
                    let (ex, _lm) = run_and_model(&c2, &mut st2);
                    (oracle::panics("C12", &c2, &ex), st2.trace_hash)
                });
                match h.map(|h| h.join()) {
                    Ok(Ok((v, th))) => {
                        st.trace_hash = th;
                        st.evaluations = c.ops.len().max(1) as u64;
                        st.count("long_inputs_on_2MiB_stack", 1);
                        return v;
                    }
                    _ => panic!("harness: could not run the long-input evaluation thread"),
                }
            }
            let (ex, _lm) = run_and_model(c, st);
            st.nontrivial = Some(abstract_prog(c, &ex, st));
            st.evaluations = c.ops.len().max(1) as u64;
            oracle::panics("C12", c, &ex)
        }
        _ => panic!("harness: unexpected case type"),
    }
}

const FK_ALL: &[&str] = &["short_write", "interrupted", "err_once", "die", "ok_zero", "die_at_byte", "dead_sink_write"];

// ================================================================ C13

fn c13_scen(t: Tier) -> Vec<(&'static str, u64)> {
    vec![("enumerate", t.pick(320, 12_000))]
}
fn c13_gen(_sc: &str, rng: &mut Rng, _t: Tier, i: u64) -> AnyCase {
    AnyCase::Prog(crate::fault::gen_history(rng, i))
}
fn c13_eval(_sc: &str, case: &AnyCase, st: &mut RunStats, t: Tier) -> Vec<Violation> {
    let case = as_prog(case);
    let mut h = Hasher64::new();
    h.str(&format!("{:?}", case.cfg));
    h.u64(case.ops.len() as u64);
    crate::fault::eval(case, st, t, h.finish())
}

const STUB_FAULT: &[&str] = &["sink (SimSink: one enumerated fault point per execution; healed after the finish attempt so that any further write would be accepted and seen)", "caller (representative histories of every layout)"];

// ================================================================ C16

fn c16_scen(t: Tier) -> Vec<(&'static str, u64)> {
    let mut v = vec![
        ("boundary-progressive", t.pick(200_000, 4_000_000)),
        ("boundary-fragmented", t.pick(200_000, 4_000_000)),
        // count and length fields: thousands to 70 000 samples per track / per fragment / fragments
        ("counts-progressive", t.pick(48, 800)),
        ("counts-fragmented", t.pick(2_000, 40_000)),
        // "declared durations stay consistent with the sample tables": ordinary histories, with rejected calls in between
        ("consistency", t.pick(100_000, 2_000_000)),
    ];
    if t == Tier::Thorough {
        // 16 recordings of about 4 GiB each, executed one at a time by worker 0
        v.push(("slow-four-gib", 32));
    }
    v
}
fn c16_gen(sc: &str, rng: &mut Rng, _t: Tier, i: u64) -> AnyCase {
    if sc == "slow-four-gib" {
        return AnyCase::Prog(crate::big::gen(rng, i));
    }
    if sc == "boundary-fragmented" {
        AnyCase::Frag(gen::gen_frag(rng, &FragKnobs { reject_pct: 3, boundary: true, big: false, long_pct: 1 }))
    } else if sc == "counts-fragmented" {
        AnyCase::Frag(gen::gen_frag(rng, &FragKnobs { reject_pct: 1, boundary: false, big: false, long_pct: 100 }))
    } else if sc == "consistency" {
        let mut k = Knobs::functional();
        k.invalid_pct = 8;
        k.audio_pct = 80;
        k.long_title_pct = 0;
        AnyCase::Prog(gen::gen_prog(rng, &k).0)
    } else if sc == "counts-progressive" {
        let mut k = Knobs::functional();
        k.long_pct = 100;
        k.huge_of_long_pct = 100;
        k.audio_pct = 50;
        k.meta_pct = 10;
        k.long_title_pct = 0;
        AnyCase::Prog(gen::gen_prog(rng, &k).0)
    } else {
        AnyCase::Prog(gen::gen_boundary(rng))
    }
}
fn c16_eval(sc: &str, case: &AnyCase, st: &mut RunStats, _t: Tier) -> Vec<Violation> {
    if sc == "boundary-fragmented" || sc == "counts-fragmented" {
        return crate::frag::c16_eval_frag(as_frag(case), st);
    }
    if sc == "slow-four-gib" {
        return crate::big::eval(as_prog(case), st);
    }
    let case = as_prog(case);
    let (ex, lm) = run_and_model(case, st);
    let mut out = oracle::panics("C16", case, &ex);
    if let Some((_, bytes)) = oracle::complete_file(case, &ex) {
        // addressing (stco / stsz) first, then every other numeric field
        for mut x in oracle::c01_addressing("C16", case, &ex, &lm, bytes) {
            x.class = x.class.replace("C16/", "C16/addressing-");
            out.push(x);
        }
        if out.is_empty() {
            out.extend(oracle::c16_numeric("C16", case, &lm, bytes));
        }
        st.nontrivial = Some(abstract_prog(case, &ex, st));
        st.count("finish_ok", 1);
    } else if ex.first_panic().is_none() {
        st.count("finish_or_write_refused", 1);
        st.nontrivial = Some(abstract_prog(case, &ex, st) ^ 1);
    }
    out
}

// ================================================================ C17

fn c17_scen(t: Tier) -> Vec<(&'static str, u64)> {
    vec![("schedules", t.pick(16_000, 500_000)), ("equivalent-paths", t.pick(200_000, 4_000_000)), ("fragment-clock", t.pick(100_000, 2_000_000))]
}
fn c17_gen(sc: &str, rng: &mut Rng, t: Tier, _i: u64) -> AnyCase {
    if sc == "fragment-clock" {
        return AnyCase::Frag(gen::gen_frag(rng, &FragKnobs { reject_pct: 5, boundary: false, big: false, long_pct: 3 }));
    }
    if sc == "equivalent-paths" {
        let mut k = knobs_functional(t);
        k.enc_api_pct = 35;
        k.meta_pct = 60;
        k.invalid_pct = 6;
        k.audio_pct = 70;
        loop {
            let (base, _) = gen::gen_prog(rng, &k);
            if let Some((variant, what)) = crate::conc::equivalent_variant(&base, rng) {
                return AnyCase::Conc(crate::conc::ConcCase { scripts: vec![base, variant], threads: 0, clock0: 0, entropy: vec![], sched_seed: 0, decisions: vec![], ctime_now: vec![], pair: Some(what.to_string()) });
            }
        }
    }
    AnyCase::Conc(crate::conc::gen(rng))
}
fn c17_eval(_sc: &str, case: &AnyCase, st: &mut RunStats, _t: Tier) -> Vec<Violation> {
    if let AnyCase::Frag(c) = case {
        return crate::conc::eval_frag_clock(c, st);
    }
    match case {
        AnyCase::Conc(c) => match &c.pair {
            Some(what) if c.scripts.len() == 2 => crate::conc::eval_pair(&c.scripts[0], &c.scripts[1], what, st),
            _ => crate::conc::eval(c, st),
        },
        _ => panic!("harness: expected a concurrency case"),
    }
}

const STUB_CONC: &[&str] = &[
    "thread scheduler (real OS threads parked on a condvar, released one at a time by a seeded baton scheduler; yield points before every API call and inside every simulated sink write)",
    "wall clock (clock_gettime defined in the harness binary; jumps between ops, seconds to millennia, both directions)",
    "OS entropy (getrandom defined in the harness binary; per-thread seed, decides std's RandomState of the thread-local invariant log)",
    "sink (SimSink, Vec<u8>, Cursor<&mut Vec<u8>>, &mut Vec<u8>, Box<dyn Write + Send>, BufWriter<SimSink>)",
];
const FK_CONC: &[&str] = &["clock_jump", "resume_inside_sink_write", "thread_migration", "entropy_reseed_per_thread"];

// ================================================================ C20

fn c20_scen(t: Tier) -> Vec<(&'static str, u64)> {
    vec![("mux-valid", t.pick(5_000, 80_000)), ("mux-invalid", t.pick(7_000, 120_000)), ("mux-faulted", t.pick(3_000, 60_000)), ("validate", t.pick(3_000, 40_000)), ("info", t.pick(3_000, 40_000))]
}
fn c20_gen(sc: &str, rng: &mut Rng, _t: Tier, _i: u64) -> AnyCase {
    AnyCase::Cli(crate::cli::gen(rng, sc))
}
fn c20_eval(sc: &str, case: &AnyCase, st: &mut RunStats, _t: Tier) -> Vec<Violation> {
    match case {
        AnyCase::Cli(c) => {
            let mut h = Hasher64::new();
            h.str(sc);
            h.str(&format!("{:?}", c));
            crate::cli::eval(c, st, h.finish())
        }
        _ => panic!("harness: expected a CLI case"),
    }
}

const STUB_CLI: &[&str] = &[
    "file-system state of a per-run scratch directory (inputs: valid hex in four spellings, odd length, non-hex, empty, whitespace only, non-UTF-8, directory, missing, dangling symlink, symlink loop; output: fresh, existing, directory, missing parent, /dev/full)",
    "argv (codec names and aliases in any case, dimensions, fps, audio codec/rate/channels, title, language, --json, --verbose, --no-progress, --dry-run, --fragmented)",
    "process environment (cleared; LANG=C)",
    "libc read(2)/write(2) of the child through an LD_PRELOAD shim (sim/shim.c): EIO, ENOSPC, EINTR and short transfers at a seeded call index",
];
const REAL_CLI: &[&str] = &["the muxide binary built from /repo (src/bin/muxide.rs + library) with overflow-checks and debug-assertions, run as a child process", "kernel file-system objects (/dev/full -> ENOSPC, directory -> EISDIR, missing parent -> ENOENT, symlink loop -> ELOOP)", "the muxide library in-process as the reference"];
const FK_CLI: &[&str] = &["shim_eio_on_write", "shim_enospc_on_write", "shim_eintr_on_write", "shim_short_write", "shim_eio_on_read", "shim_eintr_on_read", "shim_short_read", "output_dev_full(ENOSPC)", "output_is_directory(EISDIR)", "output_parent_missing(ENOENT)", "input_missing(ENOENT)", "input_is_directory(EISDIR)", "input_dangling_symlink(ENOENT)", "input_symlink_loop(ELOOP)", "input_non_utf8(InvalidData)", "info_truncated_file", "info_flipped_stored_byte", "info_random_contents"];

// ================================================================ registry

macro_rules! def {
    ($id:expr, $level:expr, $scen:expr, $gen:expr, $eval:expr, $rule:expr, $fk:expr, $stub:expr, $ex:expr) => {
        CheckDef { id: $id, level: $level, scenarios: $scen, gen: $gen, eval: $eval, rule: $rule, fault_kinds: $fk, real: REAL_LIB, stubbed: $stub, assumptions: ASSUME_READER, exhaustive_quick: $ex, slow_ok: false }
    };
}

pub static ALL: &[CheckDef] = &[
    def!("C01", "exploration", c01_scen, c01_gen, c01_eval,
        "seeded histories (all codecs x audio kinds x fast start x metadata, with/without explicit DTS, reordered or not), fault-free and under short-write/Interrupted schedules; non-trivial = finish succeeded with >= 2 accepted samples; distinct = distinct abstract trace (config class, first 48 op kinds/outcomes/size buckets, fault plan)",
        FK_BENIGN, STUB_PROG, false),
    def!("C02", "exploration", c02_scen, c02_gen, c02_eval,
        "every finished progressive file, every init_segment() and every flush_segment() value of seeded histories is parsed with strict tiling and checked for the mandatory hierarchy and count consistency; non-trivial = a byte stream was emitted; distinct = distinct abstract trace",
        &[], STUB_PROG, false),
    def!("C03", "exploration", c03_scen, c03_gen, c03_eval,
        "seeded timestamp styles (30/29.97/23.976/60 fps, tick grid, VFR, ms grid, B-frame patterns with negative offsets, long runs); stts/ctts/mdhd recomputed from the model in exact integer arithmetic; non-trivial = finished with >= 2 video samples and exact timestamps; distinct = distinct abstract trace",
        &[], STUB_PROG, false),
    def!("C04", "exploration", c04_scen, c04_gen, c04_eval,
        "every call of seeded valid/invalid mixed histories is judged by a three-valued contract model (MustAccept / MustReject(variants) / Either) before the library's answer is looked at; evaluations = judged calls; non-trivial = history with a MustReject call or >= 2 MustAccept calls; distinct = distinct abstract trace",
        &[], STUB_PROG, false),
    def!("C05", "exploration", c05_scen, c05_gen, c05_eval,
        "each history with >= 1 rejected frame-writing call is executed twice (as generated, and with the rejected calls deleted); all surviving results, stats and final bytes must be identical; same for fragmented write/flush histories; non-trivial = pair with at least one rejected call; distinct = distinct abstract trace",
        &[], STUB_PROG, false),
    def!("C06", "exploration", c06_scen, c06_gen, c06_eval,
        "sink write calls are stamped with the API op in progress; nothing before finish, nothing after, later calls fail; stats vs model and vs bytes accepted by the sink, all five finish entry points, also under short-write/Interrupted schedules; non-trivial = a finish succeeded; distinct = distinct abstract trace",
        FK_BENIGN, STUB_PROG, false),
    def!("C08", "exploration", c08_scen, c08_gen, c08_eval,
        "each history executed twice (fast start on/off); both files must address every sample correctly in their own layout and be identical after erasing chunk offsets and top-level order; titles up to 70 000 bytes; non-trivial = pair with samples; distinct = distinct abstract trace",
        &[], STUB_PROG, false),
    def!("C09", "exploration", c09_scen, c09_gen, c09_eval,
        "A/V histories with different / non-zero start times and reordered first samples; presentation time of every audio sample relative to the first video sample through stts+ctts+edit list vs submitted difference, tolerance one tick; non-trivial = finished with both tracks non-empty; distinct = distinct abstract trace",
        &[], STUB_PROG, false),
    def!("C10", "exploration", c10_scen, c10_gen, c10_eval,
        "seeded sequences over {write_video, flush_segment, ready_to_flush, current_fragment_duration_ms, init_segment}, sample sizes 0..64 KiB, rejected writes, empty flushes, all four codecs via builder and direct FragmentConfig; every segment parsed and every sample located through the run's data offset; queries judged for purity by re-execution without them; non-trivial = at least one segment emitted; distinct = distinct abstract trace (first 40 op kinds/outcomes/size buckets)",
        &[], STUB_FRAG, false),
    def!("C11", "exploration", c11_scen, c11_gen, c11_eval,
        "seeded DTS sequences (constant, variable, equal, non-zero start) under all segmentations incl. single-sample segments and PTS reorderings; trun durations/offsets/flags vs model, tfdt monotone and not before the previous segment's last sample, constant-interval clause, init segment byte-stable; non-trivial = at least one segment emitted; distinct = distinct abstract trace",
        &[], STUB_FRAG, false),
    def!("C12", "exploration", c12_scen, c12_gen, c12_eval,
        "adversarial histories (truncations, bit flips, extremes for every integer/float argument, every object state incl. after failed finish, sink faults of every kind during finish), adversarial fragmented sequences (timescale 0, decode times at 2^31/2^32/2^63/2^64 boundaries) and every stateless public function of codec::*, validation, api value types on adversarial byte strings; every returned error is formatted with {} {:#} {:?}; oracle: no panic (hook + catch_unwind, overflow checks on), no worker death, no watchdog expiry; evaluations = ops executed; non-trivial = every run; distinct = distinct abstract trace",
        FK_ALL, STUB_PROG, false),
    CheckDef { id: "C13", level: "fault_enumeration", scenarios: c13_scen, gen: c13_gen, eval: c13_eval,
        rule: "for each representative history (layouts video-only / A+V x fast start on/off x metadata yes/no x 0/1/many samples pinned for the first 48, the rest drawn): one fault-free reference run, then ENUMERATION of every write call of the finish (plus one past the end) x every fault kind (ErrOnce per ErrorKind, Die, Ok(0), three short-write sizes, Interrupted bursts of 1 and 3), every byte offset of the output as death point (all offsets for files <= 4 KiB, else all write boundaries +-1 and 512 seeded offsets), and seeded short-write/Interrupted schedules with an optional fatal fault; evaluations = faulted executions; non-trivial = a fault actually fired; distinct = distinct (history, fault plan)",
        fault_kinds: FK_ALL, real: REAL_LIB, stubbed: STUB_FAULT, assumptions: ASSUME_READER, exhaustive_quick: true, slow_ok: false },
    def!("C16", "exploration", c16_scen, c16_gen, c16_eval,
        "boundary-biased histories: inter-frame gaps at 2^32-2..2^32+2 ticks, totals crossing 2^32 ticks (>= 3 frames) and 2^32 ms (>= 92 frames), |pts-dts| around 2^31, parameter sets of 65533..65537 bytes, dimensions 65535/65536/2^31/2^32-1, AAC rates >= 65536, channel counts >= 256, timestamps at 2^53 ticks and beyond u64, audio gaps/totals at 2^32; fragmented: DTS gaps at 2^32, offsets at 2^31, decode times at 2^32/2^53/2^64-1e5, large parameter sets; every decoded numeric field is recomputed from the model in i128 or the producing call must have failed; non-trivial = every run that finished or was refused; distinct = distinct abstract trace",
        &[], STUB_PROG, false),
    CheckDef { id: "C17", level: "exploration", scenarios: c17_scen, gen: c17_gen, eval: c17_eval,
        rule: "scenario 'schedules': 1..8 muxer scripts x 1..16 real threads; a seeded scheduler decides at every API call and every sink write which thread continues and which muxer it takes (muxers migrate between threads by value), the wall clock jumps between decisions, every thread gets its own entropy seed, sink types vary; every return value and the final bytes of every script must equal its solo reference run; the library may read the clock only in with_current_time(); scenario 'equivalent-paths': pairs of histories that differ by one equivalent API path must give identical files; non-trivial = schedule with >= 2 decisions / pair executed; distinct = distinct (muxers, threads, sink kinds, first 64 decisions) resp. (transformation, abstract trace); states = distinct complete schedules",
        fault_kinds: FK_CONC, real: REAL_LIB, stubbed: STUB_CONC, assumptions: ASSUME_READER, exhaustive_quick: false, slow_ok: false },
    CheckDef { id: "C20", level: "exploration", scenarios: c20_scen, gen: c20_gen, eval: c20_eval,
        rule: "the real binary as a child process per run in a generated directory; three-valued oracle: MustSucceed (documented-valid parameters, readable valid inputs, writable output) => exit 0, output byte-identical to the in-process library run, reported frame counts equal the inputs; MustFail (input missing/unreadable/invalid, parameter missing or out of range, output not creatable/writable incl. ENOSPC, frame refused by the library) => exit != 0 and no completion report on stdout/stderr; Either for audio-only, --fragmented, --dry-run, --audio-codec none; validate: verdict (json / text / report file) valid iff every given input exists and is non-empty even-length hex; info: exact top-level box list for library-produced progressive and fragmented files, termination on truncated / corrupted / random contents; non-trivial = a judged (not Either) run; distinct = distinct (command, expectation, input kinds, output kind, codecs, flags)",
        fault_kinds: FK_CLI, real: REAL_CLI, stubbed: STUB_CLI, assumptions: ASSUME_READER, exhaustive_quick: false, slow_ok: false },
    def!("C15", "exploration", c15_scen, c15_gen, c15_eval,
        "A/V histories with adversarial submission order (all audio last/first, alternation, bursts, equal timestamps); offsets increase within each track, and for non-reordered streams global storage order = stable merge by (tick timestamp, video first); non-trivial = finished with audio and >= 2 video samples; distinct = distinct abstract trace",
        &[], STUB_PROG, false),
];
