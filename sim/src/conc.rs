//! S-CONC (C17): placeholder, filled in below.
use serde::{Deserialize, Serialize};

#[derive(Clone, Debug, Serialize, Deserialize)]
pub struct ConcCase {}
impl ConcCase {
    pub fn size(&self) -> usize { 0 }
    pub fn shrink(&self) -> Vec<ConcCase> { Vec::new() }
    pub fn sample_view(&self, scenario: &str) -> serde_json::Value { serde_json::json!({"scenario": scenario}) }
}
