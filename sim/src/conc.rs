//! S-CONC (C17): M muxer scripts executed by K real threads under a seeded
//! baton scheduler. Exactly one thread runs at any time; at every yield point
//! (before an API call, inside every simulated sink write) the baton goes back
//! to the scheduler, which picks who continues. Muxers migrate between threads
//! by value. The recorded decision list is the schedule.

use crate::case::*;
use crate::checks::RunStats;
use crate::exec::{self, Driver, OpRec, Res};
use crate::hooks;
use crate::oracle::{normalise, op_entry, v, Violation};
use crate::rng::{Hasher64, Rng};
use crate::sink::{LogHandle, SimSink};
use serde::{Deserialize, Serialize};
use std::cell::RefCell;
use std::io::{BufWriter, Cursor, Write};
use std::sync::atomic::Ordering;
use std::sync::{Arc, Condvar, Mutex};

#[derive(Clone, Debug, Serialize, Deserialize, PartialEq)]
pub enum Dec {
    /// thread t starts the next op of muxer m
    Start { t: usize, m: usize },
    /// thread t, parked inside a sink write, continues
    Resume { t: usize },
    /// the wall clock jumps by delta seconds
    Clock { delta: i64 },
}

#[derive(Clone, Debug, Serialize, Deserialize)]
pub struct ConcCase {
    pub scripts: Vec<ProgCase>,
    pub threads: usize,
    pub clock0: i64,
    /// entropy seed handed to each spawned thread
    pub entropy: Vec<u64>,
    pub sched_seed: u64,
    /// recorded schedule; empty = derive from sched_seed
    #[serde(default)]
    pub decisions: Vec<Dec>,
    /// some scripts read the wall clock at build time (`with_current_time`)
    #[serde(default)]
    pub ctime_now: Vec<bool>,
    /// "equivalent API paths" mode: scripts = [base, variant], no threads; the name of the transformation
    #[serde(default)]
    pub pair: Option<String>,
}

impl ConcCase {
    pub fn size(&self) -> usize {
        self.scripts.iter().map(|s| s.ops.len()).sum::<usize>() + self.threads
    }
    pub fn shrink(&self) -> Vec<ConcCase> {
        let mut out = Vec::new();
        if self.pair.is_some() {
            return out;
        }
        for i in 0..self.scripts.len() {
            if self.scripts.len() > 1 {
                let mut c = self.clone();
                c.scripts.remove(i);
                if c.ctime_now.len() > i {
                    c.ctime_now.remove(i);
                }
                c.decisions.clear();
                out.push(c);
            }
        }
        if self.threads > 1 {
            let mut c = self.clone();
            c.threads = (self.threads / 2).max(1);
            c.entropy.truncate(c.threads);
            c.decisions.clear();
            out.push(c);
        }
        for i in 0..self.scripts.len() {
            for st in crate::checks::shrink_prog_steps(&self.scripts[i]).into_iter().take(12) {
                let s = crate::checks::apply_prog_shrink(&self.scripts[i], &st);
                let mut c = self.clone();
                c.scripts[i] = s;
                c.decisions.clear();
                out.push(c);
            }
        }
        out
    }
    pub fn sample_view(&self, scenario: &str) -> serde_json::Value {
        serde_json::json!({
            "scenario": scenario,
            "muxers": self.scripts.len(),
            "threads": self.threads,
            "sink_types": self.scripts.iter().map(|s| if s.faults.pattern.is_empty() { format!("{:?}", s.cfg.sink) } else { format!("{:?}+short/interrupted writes {:?}", s.cfg.sink, s.faults.pattern) }).collect::<Vec<_>>(),
            "ops_per_muxer": self.scripts.iter().map(|s| s.ops.len()).collect::<Vec<_>>(),
            "clock0": self.clock0,
            "schedule_head": self.decisions.iter().take(24).collect::<Vec<_>>(),
            "schedule_len": self.decisions.len(),
        })
    }
}

pub fn gen(rng: &mut Rng) -> ConcCase {
    let m = rng.range(1, 8) as usize;
    let threads = rng.range(1, 16) as usize;
    let mut k = crate::gen::Knobs::functional();
    k.long_pct = 0;
    k.mib_frames = false; // every write call is a baton round trip, and some sinks take 2..4 bytes per call
    k.short_max = 6;
    k.invalid_pct = 10;
    k.after_finish_pct = 30;
    k.no_finish_pct = 5;
    k.long_title_pct = 0;
    let mut scripts = Vec::new();
    let mut ctime_now = Vec::new();
    for _ in 0..m {
        let (mut c, _) = crate::gen::gen_prog(rng, &k);
        c.cfg.sink = *rng.pick(&[SinkKind::Sim, SinkKind::Sim, SinkKind::VecU8, SinkKind::Cursor, SinkKind::MutRefVec, SinkKind::BoxDyn, SinkKind::BufWriterSim]);
        // invariant-log operations between ops
        if rng.chance(1, 3) {
            let n = rng.range(1, 3);
            for _ in 0..n {
                let pos = rng.usize(c.ops.len() + 1);
                c.ops.insert(pos, if rng.bool() { Op::ClearLog } else { Op::ReadLog });
            }
        }
        c.faults = FaultPlan::default();
        if c.cfg.sink == SinkKind::Sim && rng.chance(1, 3) {
            // a sink of another temperament: shortens and interrupts writes (never fails)
            let n = rng.range(2, 9) as usize;
            // no one-byte-at-a-time writes here: every write call is a baton round trip between threads
            c.faults.pattern = (0..n).map(|_| *rng.pick(&[0u8, 2, 2, 3, 4])).collect();
        }
        ctime_now.push(rng.chance(1, 5));
        scripts.push(c);
    }
    if m >= 2 && rng.chance(1, 3) {
        // twins: muxer 0's finish fails in its sink; muxer 1 has the same configuration and the same
        // numbers of samples but another interleaving. Whatever muxer 0 leaves behind (in a thread, a
        // static, a cache) must not show in muxer 1.
        let mut kk = crate::gen::Knobs::functional();
        kk.long_pct = 0;
        kk.mib_frames = false;
        kk.short_max = 6;
        kk.audio_pct = 100;
        kk.enc_api_pct = 0;
        kk.bframes_pct = 0;
        kk.start_offset_pct = 0;
        kk.adversarial_order_pct = 0;
        kk.audio_jitter_pct = 0;
        for _ in 0..6 {
            let (a, info) = crate::gen::gen_prog(rng, &kk);
            if info.n_video >= 2 && info.n_audio >= 2 && a.cfg.audio_effective().is_some() {
                let mut a = a;
                a.cfg.sink = SinkKind::Sim;
                let mut b = a.clone();
                // same counts, other cross-track order: move every audio timestamp by a few video intervals
                let shift = *rng.pick(&[0.07f64, 0.13, 0.4]);
                for op in b.ops.iter_mut() {
                    if let Op::Audio { pts, .. } = op {
                        *pts = F(pts.0 + shift);
                    }
                }
                a.faults = FaultPlan { at_call: vec![(rng.range(1, 8) as u32, Fault::ErrOnce(*rng.pick(&ERRK_ALL)))], ..Default::default() };
                b.faults = FaultPlan::default();
                scripts[0] = a;
                scripts[1] = b;
                ctime_now[0] = false;
                ctime_now[1] = false;
                break;
            }
        }
    }
    else if m >= 2 && rng.chance(1, 2) {
        // near twins: muxer j is muxer i with one small difference (the first frame in another framing or
        // with one bit flipped, one configuration field changed). Anything remembered across instances
        // under too coarse a key (a parse cache, a header template) shows as muxer j's output differing
        // from what the same script produces alone.
        let i = rng.usize(m);
        let mut j = rng.usize(m);
        if j == i {
            j = (i + 1) % m;
        }
        let mut b = scripts[i].clone();
        near_twin(rng, &mut b);
        scripts[j] = b;
        ctime_now[j] = ctime_now[i];
    }
    let entropy = (0..threads).map(|_| rng.next_u64()).collect();
    let clock0 = *rng.pick(&[0i64, 1, 951782400, 1700000000, 4102444800, 253402300799, 32503680000]);
    ConcCase { scripts, threads, clock0, entropy, sched_seed: rng.next_u64(), decisions: Vec::new(), ctime_now, pair: None }
}

/// One small change to a script (see `gen`); whether the changed script is still accepted is irrelevant,
/// its reference is what it does alone.
fn near_twin(rng: &mut Rng, c: &mut ProgCase) {
    let first_video = c.ops.iter().position(|o| matches!(o, Op::Video { .. } | Op::VideoDts { .. } | Op::EncVideo { .. }));
    let how = rng.below(8);
    match (how, first_video) {
        (0..=2, Some(k)) if c.cfg.video.as_ref().map(|v| v.codec == VCodec::Av1).unwrap_or(false) => {
            let d = c.ops[k].data_mut().unwrap();
            if let Some(r) = crate::frames::av1_reframe(&d.0, how as u8) {
                d.0 = r;
            }
        }
        (0..=4, Some(k)) => {
            // one bit somewhere in the first frame (parameter sets, headers, start codes, payload)
            let d = c.ops[k].data_mut().unwrap();
            if !d.0.is_empty() {
                let at = rng.usize(d.0.len().min(96));
                d.0[at] ^= 1 << rng.below(8);
            }
        }
        (5, Some(k)) => {
            // the last byte of the first frame dropped / one appended
            let d = c.ops[k].data_mut().unwrap();
            if rng.bool() && d.0.len() > 1 {
                d.0.pop();
            } else {
                d.0.push(rng.below(256) as u8);
            }
        }
        _ => {
            // one configuration field
            match rng.below(4) {
                0 => {
                    if let Some(v) = c.cfg.video.as_mut() {
                        v.width = v.width.wrapping_add(2).max(2);
                    }
                }
                1 => {
                    if let Some(v) = c.cfg.video.as_mut() {
                        v.height = v.height.wrapping_add(2).max(2);
                    }
                }
                2 => {
                    if let Some(a) = c.cfg.audio.as_mut() {
                        a.channels = if a.channels == 1 { 2 } else { 1 };
                    }
                }
                _ => c.cfg.fast_start = Some(!c.cfg.fast_start_effective()),
            }
        }
    }
}

// ---------------------------------------------------------------- muxers behind one interface

pub trait AnyMux: Send {
    fn step(&mut self, op: &Op);
    fn recs(&self) -> &[OpRec];
    fn log_reads(&self) -> &[Vec<String>];
    /// drop the muxer and return the bytes its sink received, if observable
    fn finish_output(self: Box<Self>) -> Option<Vec<u8>>;
}

enum Out {
    Log(LogHandle),
    /// leaked Vec recovered after the muxer is gone
    Raw(*mut Vec<u8>),
    Unobservable,
}
// the raw pointer is only dereferenced after the muxer that borrowed it has been dropped
unsafe impl Send for Out {}

struct MuxBox<W: Write + Send> {
    d: Driver<W>,
    out: Out,
}

impl<W: Write + Send> AnyMux for MuxBox<W> {
    fn step(&mut self, op: &Op) {
        self.d.step(op)
    }
    fn recs(&self) -> &[OpRec] {
        &self.d.recs
    }
    fn log_reads(&self) -> &[Vec<String>] {
        &self.d.log_reads
    }
    fn finish_output(self: Box<Self>) -> Option<Vec<u8>> {
        let MuxBox { mut d, out } = *self;
        drop(d.muxer.take()); // BufWriter flushes here
        match out {
            Out::Log(l) => Some(std::mem::take(&mut l.lock().unwrap().bytes)),
            Out::Raw(p) => Some(*unsafe { Box::from_raw(p) }),
            Out::Unobservable => None,
        }
    }
}

fn yield_hook() -> Arc<dyn Fn() + Send + Sync> {
    Arc::new(|| {
        let cur = CUR.with(|c| c.borrow().clone());
        if let Some((sh, me)) = cur {
            sh.park(me);
        }
    })
}

fn build_any(script: &ProgCase, now: bool) -> (Option<Box<dyn AnyMux>>, Res) {
    let mut cfg = script.cfg.clone();
    let plan = script.faults.clone();
    if now {
        // the builder call `Metadata::with_current_time()` is the one sanctioned clock read
        let t = muxide::api::Metadata::new().with_current_time().creation_time;
        let m = cfg.meta.get_or_insert_with(MetaCfg::default);
        m.ctime = t;
        m.style = 0;
    }
    macro_rules! mk {
        ($sink:expr, $out:expr) => {{
            let (mx, res) = exec::build_muxer($sink, &cfg);
            (Some(Box::new(MuxBox { d: Driver::new(mx), out: $out }) as Box<dyn AnyMux>), res)
        }};
    }
    match cfg.sink {
        SinkKind::Sim => {
            let (mut s, log) = SimSink::new(plan);
            s.yield_hook = Some(yield_hook());
            mk!(s, Out::Log(log))
        }
        SinkKind::BoxDyn => {
            let (mut s, log) = SimSink::new(FaultPlan::default());
            s.yield_hook = Some(yield_hook());
            let b: Box<dyn Write + Send> = Box::new(s);
            mk!(b, Out::Log(log))
        }
        SinkKind::BufWriterSim => {
            let (mut s, log) = SimSink::new(FaultPlan::default());
            s.yield_hook = Some(yield_hook());
            mk!(BufWriter::with_capacity(97, s), Out::Log(log))
        }
        SinkKind::VecU8 => mk!(Vec::<u8>::new(), Out::Unobservable),
        SinkKind::Cursor => {
            let p: *mut Vec<u8> = Box::into_raw(Box::new(Vec::new()));
            let r: &'static mut Vec<u8> = unsafe { &mut *p };
            mk!(Cursor::new(r), Out::Raw(p))
        }
        SinkKind::MutRefVec => {
            let p: *mut Vec<u8> = Box::into_raw(Box::new(Vec::new()));
            let r: &'static mut Vec<u8> = unsafe { &mut *p };
            mk!(r, Out::Raw(p))
        }
    }
}

// ---------------------------------------------------------------- baton scheduler

#[derive(Clone, Copy, PartialEq, Debug)]
enum Turn {
    Driver,
    Thread(usize),
}

enum Cmd {
    Run { m: usize },
    Exit,
}

struct St {
    turn: Turn,
    cmd: Vec<Option<Cmd>>,
    parked: Vec<bool>,
    busy: Vec<bool>,
    slots: Vec<Option<Box<dyn AnyMux>>>,
    next_op: Vec<usize>,
    /// which thread executed each op of each muxer (migration evidence)
    ran_on: Vec<Vec<usize>>,
}

struct Shared {
    m: Mutex<St>,
    cv: Condvar,
    ops: Vec<Vec<Op>>,
}

thread_local! {
    static CUR: RefCell<Option<(Arc<Shared>, usize)>> = const { RefCell::new(None) };
}

impl Shared {
    /// called on a worker thread from inside a sink write: hand the baton back and wait
    fn park(&self, me: usize) {
        let mut g = self.m.lock().unwrap();
        g.parked[me] = true;
        g.turn = Turn::Driver;
        self.cv.notify_all();
        while g.turn != Turn::Thread(me) {
            g = self.cv.wait(g).unwrap();
        }
        g.parked[me] = false;
    }
}

fn worker(sh: Arc<Shared>, me: usize, seed: u64) {
    hooks::THREAD_ENTROPY.with(|c| c.set(seed));
    CUR.with(|c| *c.borrow_mut() = Some((sh.clone(), me)));
    loop {
        let mut g = sh.m.lock().unwrap();
        while g.turn != Turn::Thread(me) {
            g = sh.cv.wait(g).unwrap();
        }
        match g.cmd[me].take() {
            Some(Cmd::Exit) | None => {
                g.turn = Turn::Driver;
                sh.cv.notify_all();
                break;
            }
            Some(Cmd::Run { m }) => {
                let mut mux = g.slots[m].take().expect("harness: muxer slot empty");
                let opi = g.next_op[m];
                g.next_op[m] += 1;
                g.ran_on[m].push(me);
                g.busy[me] = true;
                drop(g);
                // the op itself may park (and so give up the baton) inside sink writes
                mux.step(&sh.ops[m][opi]);
                let mut g = sh.m.lock().unwrap();
                g.slots[m] = Some(mux);
                g.busy[me] = false;
                g.turn = Turn::Driver;
                sh.cv.notify_all();
            }
        }
    }
    CUR.with(|c| *c.borrow_mut() = None);
}

pub struct ConcOut {
    pub recs: Vec<Vec<OpRec>>,
    pub builds: Vec<Res>,
    pub outputs: Vec<Option<Vec<u8>>>,
    pub log_reads: Vec<Vec<Vec<String>>>,
    pub decisions: Vec<Dec>,
    pub migrations: u64,
    pub switches_inside_finish: u64,
    pub clock_min: i64,
    pub clock_max: i64,
}

pub fn run_conc(case: &ConcCase) -> ConcOut {
    exec::install_panic_hook();
    let m = case.scripts.len();
    let k = case.threads.max(1);
    hooks::SIM_CLOCK_SECS.store(case.clock0, Ordering::SeqCst);
    hooks::SIM_CLOCK_ON.store(true, Ordering::SeqCst);
    hooks::SIM_ENTROPY_ON.store(true, Ordering::SeqCst);
    let mut builds = Vec::new();
    let mut slots: Vec<Option<Box<dyn AnyMux>>> = Vec::new();
    for (i, s) in case.scripts.iter().enumerate() {
        let (mx, res) = build_any(s, case.ctime_now.get(i).copied().unwrap_or(false));
        builds.push(res);
        slots.push(mx);
    }
    let sh = Arc::new(Shared {
        m: Mutex::new(St { turn: Turn::Driver, cmd: (0..k).map(|_| None).collect(), parked: vec![false; k], busy: vec![false; k], slots, next_op: vec![0; m], ran_on: vec![Vec::new(); m] }),
        cv: Condvar::new(),
        ops: case.scripts.iter().map(|s| s.ops.clone()).collect(),
    });
    let mut handles = Vec::new();
    for t in 0..k {
        let sh2 = sh.clone();
        let seed = case.entropy.get(t).copied().unwrap_or(t as u64);
        handles.push(std::thread::spawn(move || worker(sh2, t, seed)));
    }
    let mut rng = Rng::new(case.sched_seed);
    let replaying = !case.decisions.is_empty();
    let mut feed = case.decisions.iter();
    let mut decisions: Vec<Dec> = Vec::new();
    let mut clock = case.clock0;
    let (mut cmin, mut cmax) = (clock, clock);
    let mut switches_inside_finish = 0u64;
    loop {
        let g = sh.m.lock().unwrap();
        // what can happen next?
        let parked: Vec<usize> = (0..k).filter(|&t| g.parked[t]).collect();
        let idle_threads: Vec<usize> = (0..k).filter(|&t| !g.parked[t] && !g.busy[t]).collect();
        let ready_mux: Vec<usize> = (0..m).filter(|&i| g.slots[i].is_some() && g.next_op[i] < sh.ops[i].len()).collect();
        drop(g);
        if parked.is_empty() && ready_mux.is_empty() {
            break;
        }
        let feasible = |d: &Dec| -> bool {
            match d {
                Dec::Resume { t } => parked.contains(t),
                Dec::Start { t, m } => idle_threads.contains(t) && ready_mux.contains(m),
                Dec::Clock { .. } => true,
            }
        };
        let mut dec: Option<Dec> = None;
        if replaying {
            for d in feed.by_ref() {
                if feasible(d) {
                    dec = Some(d.clone());
                    break;
                }
            }
        }
        let dec = match dec {
            Some(d) => d,
            None => {
                if replaying {
                    // schedule exhausted (or edited): finish deterministically
                    if let Some(&t) = parked.first() {
                        Dec::Resume { t }
                    } else {
                        Dec::Start { t: idle_threads[0], m: ready_mux[0] }
                    }
                } else {
                    let can_start = !idle_threads.is_empty() && !ready_mux.is_empty();
                    let r = rng.below(100);
                    if r < 6 {
                        let delta = *rng.pick(&[1i64, -1, 3600, -3600, 86400 * 365, -86400 * 365, 31_556_952_000, -31_556_952_000, 1 << 33]);
                        Dec::Clock { delta }
                    } else if !parked.is_empty() && (!can_start || rng.chance(1, 2)) {
                        Dec::Resume { t: *rng.pick(&parked) }
                    } else if can_start {
                        Dec::Start { t: *rng.pick(&idle_threads), m: *rng.pick(&ready_mux) }
                    } else {
                        Dec::Resume { t: parked[0] }
                    }
                }
            }
        };
        decisions.push(dec.clone());
        match dec {
            Dec::Clock { delta } => {
                clock = clock.saturating_add(delta).max(0);
                cmin = cmin.min(clock);
                cmax = cmax.max(clock);
                hooks::SIM_CLOCK_SECS.store(clock, Ordering::SeqCst);
            }
            Dec::Resume { t } => {
                let mut g = sh.m.lock().unwrap();
                if !parked.is_empty() {
                    switches_inside_finish += 1;
                }
                g.turn = Turn::Thread(t);
                sh.cv.notify_all();
                while g.turn != Turn::Driver {
                    g = sh.cv.wait(g).unwrap();
                }
            }
            Dec::Start { t, m } => {
                let mut g = sh.m.lock().unwrap();
                if !parked.is_empty() {
                    switches_inside_finish += 1;
                }
                g.cmd[t] = Some(Cmd::Run { m });
                g.turn = Turn::Thread(t);
                sh.cv.notify_all();
                while g.turn != Turn::Driver {
                    g = sh.cv.wait(g).unwrap();
                }
            }
        }
    }
    // shut the threads down one by one
    for t in 0..k {
        let mut g = sh.m.lock().unwrap();
        g.cmd[t] = Some(Cmd::Exit);
        g.turn = Turn::Thread(t);
        sh.cv.notify_all();
        while g.turn != Turn::Driver {
            g = sh.cv.wait(g).unwrap();
        }
    }
    for h in handles {
        let _ = h.join();
    }
    let mut g = sh.m.lock().unwrap();
    let mut recs = Vec::new();
    let mut outputs = Vec::new();
    let mut log_reads = Vec::new();
    let mut migrations = 0u64;
    for i in 0..m {
        let mx = g.slots[i].take();
        match mx {
            Some(b) => {
                recs.push(b.recs().to_vec());
                log_reads.push(b.log_reads().to_vec());
                outputs.push(b.finish_output());
            }
            None => {
                recs.push(Vec::new());
                log_reads.push(Vec::new());
                outputs.push(None);
            }
        }
        migrations += g.ran_on[i].windows(2).filter(|w| w[0] != w[1]).count() as u64;
    }
    drop(g);
    hooks::SIM_CLOCK_ON.store(false, Ordering::SeqCst);
    hooks::SIM_ENTROPY_ON.store(false, Ordering::SeqCst);
    ConcOut { recs, builds, outputs, log_reads, decisions, migrations, switches_inside_finish, clock_min: cmin, clock_max: cmax }
}

/// The reference: the same script alone, on the calling thread, into a plain recording sink.
fn reference(script: &ProgCase, now: bool, clock0: i64) -> (Res, Vec<OpRec>, Vec<u8>) {
    let mut c = script.clone();
    c.cfg.sink = SinkKind::Sim;
    // short-write / Interrupted patterns must not matter (reference without them); a hard fault is part of
    // the script's world and applies to the solo run as well (same call index => same outcome)
    c.faults.pattern.clear();
    if now {
        let m = c.cfg.meta.get_or_insert_with(MetaCfg::default);
        m.ctime = Some(clock0.max(0) as u64);
        m.style = 0;
    }
    let ex = exec::run_prog(&c);
    (ex.build, ex.ops, ex.sink.bytes)
}

pub fn eval(case: &ConcCase, st: &mut RunStats) -> Vec<Violation> {
    let mut out = Vec::new();
    let refs: Vec<(Res, Vec<OpRec>, Vec<u8>)> = case.scripts.iter().enumerate().map(|(i, s)| reference(s, case.ctime_now.get(i).copied().unwrap_or(false), case.clock0)).collect();
    let reads0 = hooks::CLOCK_READS.load(Ordering::SeqCst);
    let co = run_conc(case);
    let reads = hooks::CLOCK_READS.load(Ordering::SeqCst) - reads0;
    let sanctioned = case.ctime_now.iter().filter(|b| **b).count() as u64;
    st.count("muxers", case.scripts.len() as u64);
    st.count("threads", case.threads as u64);
    st.count("muxer_migrations_between_threads", co.migrations);
    st.count("context_switches_while_a_finish_was_in_progress", co.switches_inside_finish);
    st.count("schedule_decisions", co.decisions.len() as u64);
    st.count("clock_reads_observed", reads);
    for d in &co.decisions {
        match d {
            Dec::Clock { .. } => *st.fired.entry("clock_jump").or_insert(0) += 1,
            Dec::Resume { .. } => *st.fired.entry("resume_inside_sink_write").or_insert(0) += 1,
            Dec::Start { .. } => {}
        }
    }
    *st.fired.entry("thread_migration").or_insert(0) += co.migrations;
    *st.fired.entry("entropy_reseed_per_thread").or_insert(0) += case.threads as u64;
    st.clock_jumps = (co.clock_min - case.clock0, co.clock_max - case.clock0);
    let mut th = Hasher64::new();
    for d in &co.decisions {
        th.str(&format!("{:?}", d));
    }
    let mut rec_case = case.clone();
    rec_case.decisions = co.decisions.clone();
    let mut push = |out: &mut Vec<Violation>, st: &mut RunStats, x: Violation| {
        st.violating_cases.push((x.class.clone(), x.key.clone(), serde_json::to_value(crate::checks::AnyCase::Conc(rec_case.clone())).unwrap()));
        out.push(x);
    };
    if reads != sanctioned {
        push(&mut out, st, v("C17", "clock-read", "unsanctioned", format!("the wall clock was read {} times during the scenario; only {} builder calls of with_current_time() may read it", reads, sanctioned)));
    }
    for (i, s) in case.scripts.iter().enumerate() {
        let (rb, rrecs, rbytes) = &refs[i];
        if co.builds[i] != *rb {
            push(&mut out, st, v("C17", "build-result-differs", format!("{:?}", s.cfg.sink), format!("muxer {}: build returned {} in the simulated world, {} alone", i, co.builds[i].short(), rb.short())));
            continue;
        }
        for (j, op) in s.ops.iter().enumerate() {
            let a = co.recs[i].get(j);
            let b = rrecs.get(j);
            let same = match (a, b) {
                (Some(a), Some(b)) => {
                    (match (&a.res, &b.res) {
                        (Res::Err { debug: d1, .. }, Res::Err { debug: d2, .. }) => d1 == d2,
                        (x, y) => x == y,
                    }) && a.stats == b.stats
                }
                _ => false,
            };
            th.str(&a.map(|a| a.res.short()).unwrap_or_default());
            if !same {
                let is_panic = matches!(a.map(|a| &a.res), Some(Res::Panic { .. }));
                let key = if is_panic {
                    if let Some(Res::Panic { msg, .. }) = a.map(|a| &a.res) {
                        format!("panic:{}:{}", op_entry(op), normalise(msg))
                    } else {
                        String::new()
                    }
                } else {
                    format!("{}:{:?}", op_entry(op), s.cfg.sink)
                };
                push(
                    &mut out,
                    st,
                    v(
                        "C17",
                        "return-value-differs",
                        key,
                        format!(
                            "muxer {} (sink {:?}) op {} ({}): {} / stats {:?} under the schedule, {} / stats {:?} alone",
                            i,
                            s.cfg.sink,
                            j,
                            op_entry(op),
                            a.map(|a| a.res.short()).unwrap_or_default(),
                            a.and_then(|a| a.stats),
                            b.map(|b| b.res.short()).unwrap_or_default(),
                            b.and_then(|b| b.stats)
                        ),
                    ),
                );
                break;
            }
        }
        if let Some(bytes) = &co.outputs[i] {
            th.bytes(bytes);
            if bytes != rbytes {
                let pos = bytes.iter().zip(rbytes.iter()).position(|(a, b)| a != b).unwrap_or(bytes.len().min(rbytes.len()));
                push(&mut out, st, v("C17", "output-differs", format!("{:?}", s.cfg.sink), format!("muxer {} (sink {:?}): {} bytes under the schedule, {} alone; first difference at byte {}", i, s.cfg.sink, bytes.len(), rbytes.len(), pos)));
            }
        }
    }
    st.trace_hash = th.finish();
    // abstract: numbers of muxers/threads, sink kinds, schedule shape
    let mut a = Hasher64::new();
    a.u64(case.scripts.len() as u64);
    a.u64(case.threads as u64);
    for s in &case.scripts {
        a.str(&format!("{:?}", s.cfg.sink));
        a.u64(s.ops.len() as u64);
    }
    for d in co.decisions.iter().take(64) {
        a.str(&format!("{:?}", d));
    }
    if co.decisions.len() >= 2 {
        st.nontrivial = Some(a.finish());
    }
    let mut sh = Hasher64::new();
    for d in &co.decisions {
        sh.str(&format!("{:?}", d));
    }
    st.states.push(sh.finish());
    out
}

// ---------------------------------------------------------------- equivalent API paths

#[derive(Clone, Debug, Serialize, Deserialize)]
pub struct PairNote {
    pub transform: String,
}

/// Returns (variant, name of the transformation) or None if no transformation applies.
pub const ENC_VS_EXPLICIT: &str = "encode_video/encode_audio vs explicit timestamps";

/// The history with every encode_* call replaced by the explicit-timestamp call at the value the
/// library's automatic clock has at that point. The clock advances only on accepted calls, and which calls
/// are accepted is taken from executing `base` on the library under test - so the variant is derived again
/// whenever the pair is evaluated (a stored variant would carry the acceptances of the tree it was drawn on).
pub fn explicit_variant(base: &ProgCase) -> Option<ProgCase> {
    let mut c = base.clone();
    if !c.ops.iter().any(|o| matches!(o, Op::EncVideo { .. } | Op::EncAudio { .. })) {
        return None;
    }
    let codec = c.cfg.video.as_ref().map(|v| v.codec)?;
    let rate = c.cfg.audio_effective().map(|a| a.rate).unwrap_or(0);
    let ex = exec::run_prog(base);
    let mut av = 0.0f64;
    let mut aa = 0.0f64;
    let mut vcount = 0u64;
    for (i, op) in c.ops.iter_mut().enumerate() {
        let accepted = ex.ops.get(i).map(|r| r.res.is_ok()).unwrap_or(false);
        match op.clone() {
            Op::EncVideo { data, dur_ms, cc } => {
                let k = crate::model::auto_key(codec, &data.0, vcount)?;
                *op = Op::Video { pts: F(av), data, key: k, cc };
                if accepted {
                    av += dur_ms as f64 / 1000.0;
                    vcount += 1;
                }
            }
            Op::EncAudio { data, samples } => {
                *op = Op::Audio { pts: F(aa), data };
                if accepted {
                    if rate == 0 {
                        return None;
                    }
                    aa += samples as f64 / rate as f64;
                }
            }
            Op::Video { .. } | Op::VideoDts { .. } => {
                if accepted {
                    vcount += 1;
                }
            }
            _ => {}
        }
    }
    Some(c)
}

pub fn equivalent_variant(base: &ProgCase, rng: &mut Rng) -> Option<(ProgCase, &'static str)> {
    let mut order: Vec<u8> = (0..6).collect();
    for i in (1..order.len()).rev() {
        let j = rng.usize(i + 1);
        order.swap(i, j);
    }
    for t in order {
        let mut c = base.clone();
        match t {
            0 => {
                if let Some(v) = c.cfg.video.as_mut() {
                    v.alias = !v.alias;
                    return Some((c, "video() vs set_video_track()"));
                }
            }
            1 => {
                if let Some(a) = c.cfg.audio.as_mut() {
                    a.alias = !a.alias;
                    return Some((c, "audio() vs set_audio_track()"));
                }
            }
            2 => {
                if let Some(m) = c.cfg.meta.as_mut() {
                    if m.title.is_none() && (m.ctime.is_some() || m.lang.is_some()) {
                        m.style = 1 - m.style.min(1);
                        return Some((c, "with_metadata() vs set_create_time()/set_language()"));
                    }
                }
            }
            3 => {
                if let Some(pos) = c.ops.iter().position(|o| matches!(o, Op::Finish(_))) {
                    if let Op::Finish(k) = c.ops[pos] {
                        let others: Vec<FinishKind> = FINISH_KINDS.iter().copied().filter(|x| *x != k).collect();
                        c.ops[pos] = Op::Finish(*rng.pick(&others));
                        // ops after a consuming finish have no object; compare files only
                        c.ops.truncate(pos + 1);
                        return Some((c, "finish / flush / finish_in_place / *_with_stats"));
                    }
                }
            }
            4 => {
                // encode_* vs explicit timestamps at the same accumulated f64 values
                if let Some(v) = explicit_variant(base) {
                    return Some((v, ENC_VS_EXPLICIT));
                }
            }
            _ => {
                if c.cfg.audio_prior.is_some() {
                    // an earlier audio() call exists: removing the final audio(None) would re-enable it
                    continue;
                }
                match &c.cfg.audio {
                    None => {
                        c.cfg.audio = Some(AudioCfg { codec: ACodec::NoneCodec, rate: *rng.pick(&[0u32, 48000, 7]), channels: *rng.pick(&[0u16, 2, 9]), alias: rng.bool() });
                        return Some((c, "audio(None, ..) vs no audio call"));
                    }
                    Some(a) if a.codec == ACodec::NoneCodec => {
                        c.cfg.audio = None;
                        return Some((c, "audio(None, ..) vs no audio call"));
                    }
                    _ => {}
                }
            }
        }
    }
    None
}

pub fn eval_pair(base: &ProgCase, variant: &ProgCase, what: &str, st: &mut RunStats) -> Vec<Violation> {
    // the one transformation that depends on the library's own decisions is derived afresh (see explicit_variant)
    let rederived;
    let variant = if what == ENC_VS_EXPLICIT {
        match explicit_variant(base) {
            Some(v) => {
                rederived = v;
                &rederived
            }
            None => return Vec::new(),
        }
    } else {
        variant
    };
    let mut out = Vec::new();
    let a = exec::run_prog(base);
    let b = exec::run_prog(variant);
    st.evaluations = 2;
    let mut th = Hasher64::new();
    th.u64(crate::checks::trace_hash_prog(&a));
    th.u64(crate::checks::trace_hash_prog(&b));
    st.trace_hash = th.finish();
    if a.first_panic().is_some() || b.first_panic().is_some() {
        out.extend(crate::oracle::panics("C17", base, &a));
        out.extend(crate::oracle::panics("C17", variant, &b));
        return out;
    }
    let slug: String = what.chars().filter(|c| c.is_ascii_alphanumeric() || *c == '_' || *c == ' ' || *c == '/').collect();
    if a.build != b.build {
        out.push(v("C17", "equivalent-paths-differ", format!("{}:build", slug), format!("[{}] build returned {} vs {}", what, a.build.short(), b.build.short())));
        return out;
    }
    if a.sink.bytes != b.sink.bytes {
        let pos = a.sink.bytes.iter().zip(b.sink.bytes.iter()).position(|(x, y)| x != y).unwrap_or(a.sink.bytes.len().min(b.sink.bytes.len()));
        out.push(v("C17", "equivalent-paths-differ", format!("{}:file", slug), format!("[{}] the two paths produce different files ({} vs {} bytes, first difference at byte {})", what, a.sink.bytes.len(), b.sink.bytes.len(), pos)));
        return out;
    }
    // results of all corresponding calls (same positions) must agree, stats included where both report them
    for i in 0..base.ops.len().min(variant.ops.len()) {
        let (x, y) = (&a.ops[i], &b.ops[i]);
        // accept/reject must agree; which of several violated preconditions an error names is C04's business
        if x.res.is_ok() != y.res.is_ok() {
            out.push(v("C17", "equivalent-paths-differ", format!("{}:result", slug), format!("[{}] op {}: {} vs {}", what, i, x.res.short(), y.res.short())));
            return out;
        }
        if let (Some(s1), Some(s2)) = (&x.stats, &y.stats) {
            if s1 != s2 {
                out.push(v("C17", "equivalent-paths-differ", format!("{}:stats", slug), format!("[{}] op {}: stats {:?} vs {:?}", what, i, s1, s2)));
                return out;
            }
        }
    }
    let mut h = Hasher64::new();
    h.str(what);
    h.u64(crate::checks::abstract_prog(base, &a, st));
    st.nontrivial = Some(h.finish());
    st.count(&format!("pairs: {}", what), 1);
    out
}

// ---------------------------------------------------------------- fragmented muxer under two clock regimes

/// "... or at a different wall-clock time gives identical results": the same fragmented history is executed
/// with both simulated clocks (wall clock and monotonic clock) frozen, and again - on another thread - with
/// both jumping between operations (milliseconds to days; the wall clock also backwards). Every return value
/// and every emitted byte must agree, and the library must not read a clock at all.
pub fn eval_frag_clock(case: &FragCase, st: &mut RunStats) -> Vec<Violation> {
    let mut out = Vec::new();
    let _guard = CLOCK_LOCK.lock().unwrap_or_else(|e| e.into_inner());
    hooks::SIM_CLOCK_SECS.store(1_700_000_000, Ordering::SeqCst);
    hooks::SIM_MONO_NANOS.store(5_000_000_000, Ordering::SeqCst);
    hooks::SIM_CLOCK_ON.store(true, Ordering::SeqCst);
    let reads0 = hooks::CLOCK_READS.load(Ordering::SeqCst);
    let frozen = exec::run_frag(case);
    let mut h = Hasher64::new();
    for (i, op) in case.ops.iter().enumerate() {
        h.str(op.kind());
        h.u64(i as u64);
    }
    let mut jr = Rng::new(h.finish() ^ 0x636c6f636b);
    let c2 = case.clone();
    let jumps: Vec<(i64, u64)> = (0..case.ops.len())
        .map(|_| {
            let wall = *jr.pick(&[0i64, 1, 3, 60, 3600, 86_400, -1, -3600, 1_000_000_000]);
            let mono = *jr.pick(&[0u64, 1_000_000, 50_000_000, 2_100_000_000, 10_000_000_000, 86_400_000_000_000]);
            (wall, mono)
        })
        .collect();
    let moving = std::thread::spawn(move || {
        exec::run_frag_with(&c2, &mut |i| {
            let (w, m) = jumps[i];
            hooks::SIM_CLOCK_SECS.fetch_add(w, Ordering::SeqCst);
            hooks::SIM_MONO_NANOS.fetch_add(m, Ordering::SeqCst);
        })
    })
    .join();
    let reads = hooks::CLOCK_READS.load(Ordering::SeqCst) - reads0;
    hooks::SIM_CLOCK_ON.store(false, Ordering::SeqCst);
    st.trace_hash = crate::frag::trace_hash_frag(&frozen);
    let moving = match moving {
        Ok(m) => m,
        Err(_) => {
            out.push(v("C17", "panic", "fragment-clock", "the fragmented history panicked outside a guarded call when run on another thread".to_string()));
            return out;
        }
    };
    if frozen.ops.iter().any(|o| matches!(o, exec::FragRes::Panic { .. })) {
        return out; // C12's business
    }
    if reads > 0 {
        out.push(v("C17", "clock-read", "fragmented", format!("the fragmented muxer read a clock {} times during a history of {} operations; nothing in its contract depends on time", reads, case.ops.len())));
        return out;
    }
    for (i, (a, b)) in frozen.ops.iter().zip(moving.ops.iter()).enumerate() {
        if a != b {
            out.push(v("C17", "time-dependent-result", case.ops[i].kind(), format!("fragmented op {} ({}) returns {} with the clocks frozen and {} when they move between calls (other thread)", i, case.ops[i].kind(), brief(a), brief(b))));
            return out;
        }
    }
    st.nontrivial = Some(crate::frag::abstract_frag(case, &frozen, st));
    out
}

fn brief(r: &exec::FragRes) -> String {
    let s = format!("{:?}", r);
    s.chars().take(120).collect()
}

/// the simulated clocks are process-wide: one clock scenario at a time per process (workers are processes)
static CLOCK_LOCK: std::sync::Mutex<()> = std::sync::Mutex::new(());
