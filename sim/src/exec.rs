//! Executes cases against the real library (compiled from /repo).

use crate::case::*;
use crate::model::{classify, EV};
use crate::sink::{LogHandle, SimSink, SinkLog};
use muxide::api::{Metadata, Muxer, MuxerBuilder, MuxerError, MuxerStats};
use std::cell::RefCell;
use std::io::Write;
use std::panic::{catch_unwind, AssertUnwindSafe};

thread_local! {
    static LAST_PANIC: RefCell<Option<(String, String)>> = const { RefCell::new(None) };
    /// > 0 while library code runs under `guarded`; a panic outside is a harness bug and is printed
    static GUARD_DEPTH: std::cell::Cell<u32> = const { std::cell::Cell::new(0) };
}

/// Install a silent panic hook that records (message, location) per thread.
pub fn install_panic_hook() {
    static ONCE: std::sync::Once = std::sync::Once::new();
    ONCE.call_once(|| {
        std::panic::set_hook(Box::new(|info| {
            let msg = if let Some(s) = info.payload().downcast_ref::<&str>() {
                s.to_string()
            } else if let Some(s) = info.payload().downcast_ref::<String>() {
                s.clone()
            } else {
                "<non-string panic>".to_string()
            };
            let loc = info.location().map(|l| format!("{}:{}", l.file(), l.line())).unwrap_or_default();
            if GUARD_DEPTH.with(|d| d.get()) == 0 {
                eprintln!("HARNESS PANIC: {} at {}", msg, loc);
            }
            LAST_PANIC.with(|p| *p.borrow_mut() = Some((msg, loc)));
        }));
    });
}

pub fn take_panic() -> (String, String) {
    LAST_PANIC.with(|p| p.borrow_mut().take()).unwrap_or_else(|| ("<unknown>".into(), String::new()))
}

/// Run `f`, turning a panic into Err((message, location)).
pub fn guarded<T>(f: impl FnOnce() -> T) -> Result<T, (String, String)> {
    GUARD_DEPTH.with(|d| d.set(d.get() + 1));
    let r = catch_unwind(AssertUnwindSafe(f));
    GUARD_DEPTH.with(|d| d.set(d.get() - 1));
    match r {
        Ok(v) => Ok(v),
        Err(_) => Err(take_panic()),
    }
}

#[derive(Clone, Copy, Debug, PartialEq)]
pub struct Stats {
    pub video_frames: u64,
    pub audio_frames: u64,
    pub duration_secs: f64,
    pub bytes_written: u64,
}
impl From<MuxerStats> for Stats {
    fn from(s: MuxerStats) -> Self {
        Stats { video_frames: s.video_frames, audio_frames: s.audio_frames, duration_secs: s.duration_secs, bytes_written: s.bytes_written }
    }
}

#[derive(Clone, Debug, PartialEq)]
pub enum Res {
    Ok,
    Err { ev: EV, io_kind: Option<String>, debug: String },
    Panic { msg: String, loc: String },
    /// the muxer object no longer exists (consumed, dropped, or never built)
    NoObject,
}

impl Res {
    pub fn is_ok(&self) -> bool {
        matches!(self, Res::Ok)
    }
    pub fn is_err(&self) -> bool {
        matches!(self, Res::Err { .. })
    }
    pub fn ev(&self) -> Option<EV> {
        match self {
            Res::Err { ev, .. } => Some(*ev),
            _ => None,
        }
    }
    pub fn short(&self) -> String {
        match self {
            Res::Ok => "Ok".into(),
            Res::Err { ev, io_kind, .. } => match io_kind {
                Some(k) => format!("Err({:?}:{})", ev, k),
                None => format!("Err({:?})", ev),
            },
            Res::Panic { msg, .. } => format!("PANIC({})", msg),
            Res::NoObject => "NoObject".into(),
        }
    }
}

#[derive(Clone, Debug)]
pub struct OpRec {
    pub res: Res,
    pub stats: Option<Stats>,
    /// Display / alternate Display lengths (formatting exercised for C12)
    pub fmt_len: usize,
}

#[derive(Debug)]
pub struct ProgExec {
    pub build: Res,
    pub ops: Vec<OpRec>,
    pub sink: SinkLog,
    /// logged invariants observed by ReadLog ops (sorted), for C17
    pub log_reads: Vec<Vec<String>>,
}

impl ProgExec {
    pub fn accepted(&self) -> Vec<bool> {
        self.ops.iter().map(|o| o.res.is_ok()).collect()
    }
    pub fn first_panic(&self) -> Option<(usize, &str, &str)> {
        for (i, o) in self.ops.iter().enumerate() {
            if let Res::Panic { msg, loc } = &o.res {
                return Some((i, msg, loc));
            }
        }
        None
    }
    /// index and stats of the successful finish, if any
    pub fn finished_ok(&self, case: &ProgCase) -> Option<usize> {
        for (i, o) in self.ops.iter().enumerate() {
            if matches!(case.ops[i], Op::Finish(_)) && o.res.is_ok() {
                return Some(i);
            }
        }
        None
    }
    pub fn final_bytes(&self) -> &[u8] {
        &self.sink.bytes
    }
}

thread_local! {
    /// errors formatted with Display so far in this run (exact float formatting costs ~50 µs; a history with
    /// 100 000 rejected calls would spend its whole budget there)
    static DISPLAYED: std::cell::Cell<u32> = const { std::cell::Cell::new(0) };
}
const DISPLAY_PER_RUN: u32 = 512;

pub fn reset_display_budget() {
    DISPLAYED.with(|c| c.set(0));
}

fn err_to_res(e: &MuxerError) -> (Res, usize) {
    let (ev, k) = classify(e);
    let d = format!("{:?}", e);
    let n = DISPLAYED.with(|c| {
        let n = c.get();
        c.set(n.saturating_add(1));
        n
    });
    if n >= DISPLAY_PER_RUN {
        return (Res::Err { ev, io_kind: k.map(|k| format!("{:?}", k)), debug: d }, 0);
    }
    let a = format!("{}", e);
    let b = format!("{:#}", e);
    let mut extra = 0;
    if let MuxerError::InvalidAdtsDetailed { error, .. } = e {
        // exercise the public helpers of the detailed error too
        extra += error.to_json().map(|s| s.len()).unwrap_or(0);
        extra += error.to_json_compact().map(|s| s.len()).unwrap_or(0);
        extra += error.all_errors().len();
        extra += error.is_critical() as usize;
        extra += format!("{:#}", error).len();
    }
    (Res::Err { ev, io_kind: k.map(|k| format!("{:?}", k)), debug: d }, a.len() + b.len() + extra)
}

pub fn make_builder<W>(sink: W, cfg: &ProgCfg) -> MuxerBuilder<W> {
    let mut b = MuxerBuilder::new(sink);
    // earlier calls first; the later ones must replace them completely
    if let Some(v) = &cfg.video_prior {
        b = if v.alias { b.set_video_track(v.codec.to_lib(), v.width, v.height, v.fps.0) } else { b.video(v.codec.to_lib(), v.width, v.height, v.fps.0) };
    }
    if let Some(a) = &cfg.audio_prior {
        b = if a.alias { b.set_audio_track(a.codec.to_lib(), a.rate, a.channels) } else { b.audio(a.codec.to_lib(), a.rate, a.channels) };
    }
    if let Some(v) = &cfg.video {
        b = if v.alias {
            b.set_video_track(v.codec.to_lib(), v.width, v.height, v.fps.0)
        } else {
            b.video(v.codec.to_lib(), v.width, v.height, v.fps.0)
        };
    }
    if let Some(a) = &cfg.audio {
        b = if a.alias {
            b.set_audio_track(a.codec.to_lib(), a.rate, a.channels)
        } else {
            b.audio(a.codec.to_lib(), a.rate, a.channels)
        };
    }
    if let Some(m) = &cfg.meta {
        if m.style == 1 && m.title.is_none() {
            if let Some(t) = m.ctime {
                b = b.set_create_time(t);
            }
            if let Some(l) = &m.lang {
                b = b.set_language(l.clone());
            }
        } else {
            let mut md = Metadata::new();
            if let Some(t) = &m.title {
                md = md.with_title(t.clone());
            }
            if let Some(t) = m.ctime {
                md = md.with_creation_time(t);
            }
            if let Some(l) = &m.lang {
                md = md.with_language(l.clone());
            }
            b = b.with_metadata(md);
        }
    }
    if let Some(f) = cfg.fast_start {
        b = b.with_fast_start(f);
    }
    b
}

/// Callbacks around each op (used by the scheduler of S-CONC); default does nothing.
pub trait OpHooks {
    fn before_op(&mut self, _i: usize) {}
}
pub struct NoHooks;
impl OpHooks for NoHooks {}

pub struct Driver<W: Write> {
    pub muxer: Option<Muxer<W>>,
    pub recs: Vec<OpRec>,
    pub log_reads: Vec<Vec<String>>,
    pub dead: bool,
}

impl<W: Write> Driver<W> {
    pub fn new(muxer: Option<Muxer<W>>) -> Self {
        Driver { muxer, recs: Vec::new(), log_reads: Vec::new(), dead: false }
    }

    /// Execute one op; returns false once a panic ended the history.
    pub fn step(&mut self, op: &Op) {
        if self.dead {
            self.recs.push(OpRec { res: Res::NoObject, stats: None, fmt_len: 0 });
            return;
        }
        match op {
            Op::ClearLog => {
                muxide::invariant_ppt::clear_invariant_log();
                self.recs.push(OpRec { res: Res::Ok, stats: None, fmt_len: 0 });
                return;
            }
            Op::ReadLog => {
                let mut v = muxide::invariant_ppt::get_logged_invariants();
                v.sort();
                self.log_reads.push(v);
                self.recs.push(OpRec { res: Res::Ok, stats: None, fmt_len: 0 });
                return;
            }
            _ => {}
        }
        if self.muxer.is_none() {
            self.recs.push(OpRec { res: Res::NoObject, stats: None, fmt_len: 0 });
            return;
        }
        let mut stats: Option<Stats> = None;
        let out: Result<Result<(), MuxerError>, (String, String)> = match op {
            Op::Video { pts, data, key, .. } => {
                let m = self.muxer.as_mut().unwrap();
                guarded(|| m.write_video(pts.0, &data.0, *key))
            }
            Op::VideoDts { pts, dts, data, key, .. } => {
                let m = self.muxer.as_mut().unwrap();
                guarded(|| m.write_video_with_dts(pts.0, dts.0, &data.0, *key))
            }
            Op::Audio { pts, data } => {
                let m = self.muxer.as_mut().unwrap();
                guarded(|| m.write_audio(pts.0, &data.0))
            }
            Op::EncVideo { data, dur_ms, .. } => {
                let m = self.muxer.as_mut().unwrap();
                guarded(|| m.encode_video(&data.0, *dur_ms))
            }
            Op::EncAudio { data, samples } => {
                let m = self.muxer.as_mut().unwrap();
                guarded(|| m.encode_audio(&data.0, *samples))
            }
            Op::Finish(k) => match k {
                FinishKind::InPlace => {
                    let m = self.muxer.as_mut().unwrap();
                    guarded(|| m.finish_in_place())
                }
                FinishKind::InPlaceStats => {
                    let m = self.muxer.as_mut().unwrap();
                    guarded(|| m.finish_in_place_with_stats()).map(|r| {
                        r.map(|s| {
                            stats = Some(s.into());
                        })
                    })
                }
                FinishKind::Consume => {
                    let m = self.muxer.take().unwrap();
                    guarded(|| m.finish())
                }
                FinishKind::ConsumeStats => {
                    let m = self.muxer.take().unwrap();
                    guarded(|| m.finish_with_stats()).map(|r| {
                        r.map(|s| {
                            stats = Some(s.into());
                        })
                    })
                }
                FinishKind::Flush => {
                    let m = self.muxer.take().unwrap();
                    guarded(|| m.flush())
                }
            },
            Op::Drop => {
                let m = self.muxer.take();
                guarded(|| {
                    drop(m);
                    Ok(())
                })
            }
            Op::ClearLog | Op::ReadLog => unreachable!(),
        };
        let rec = match out {
            Ok(Ok(())) => OpRec { res: Res::Ok, stats, fmt_len: 0 },
            Ok(Err(e)) => match guarded(|| err_to_res(&e)) {
                Ok((res, n)) => OpRec { res, stats: None, fmt_len: n },
                Err((msg, loc)) => {
                    self.dead = true;
                    OpRec { res: Res::Panic { msg: format!("while formatting error: {}", msg), loc }, stats: None, fmt_len: 0 }
                }
            },
            Err((msg, loc)) => {
                self.dead = true;
                // the object may be in an arbitrary state; never touch it again (and do not run its drop glue under the hook)
                if let Some(m) = self.muxer.take() {
                    let _ = guarded(|| drop(m));
                }
                OpRec { res: Res::Panic { msg, loc }, stats: None, fmt_len: 0 }
            }
        };
        self.recs.push(rec);
    }
}

/// Build a muxer over `sink` per `cfg`.
pub fn build_muxer<W: Write>(sink: W, cfg: &ProgCfg) -> (Option<Muxer<W>>, Res) {
    match guarded(|| make_builder(sink, cfg).build()) {
        Ok(Ok(m)) => (Some(m), Res::Ok),
        Ok(Err(e)) => (None, err_to_res(&e).0),
        Err((msg, loc)) => (None, Res::Panic { msg, loc }),
    }
}

/// S-PROG: one progressive muxer over a SimSink, one caller.
pub fn run_prog(case: &ProgCase) -> ProgExec {
    run_prog_opts(case, false)
}

pub fn run_prog_opts(case: &ProgCase, counting_only: bool) -> ProgExec {
    reset_display_budget();
    install_panic_hook();
    let (sink, log) = SimSink::new(case.faults.clone());
    log.lock().unwrap().counting_only = counting_only;
    let (muxer, build) = build_muxer(sink, &case.cfg);
    let mut d = Driver::new(muxer);
    for (i, op) in case.ops.iter().enumerate() {
        log.lock().unwrap().cur_op = i as u32;
        d.step(op);
    }
    log.lock().unwrap().cur_op = case.ops.len() as u32;
    drop(d.muxer.take());
    let sink = take_log(&log);
    ProgExec { build, ops: d.recs, sink, log_reads: d.log_reads }
}

pub fn take_log(log: &LogHandle) -> SinkLog {
    std::mem::take(&mut *log.lock().unwrap())
}

// ---------------------------------------------------------------- fragmented

use muxide::fragmented::{FragmentConfig, FragmentedError, FragmentedMuxer};

#[derive(Clone, Debug, PartialEq)]
pub enum FragRes {
    WriteOk,
    WriteErr { prev: u64, curr: u64, text_len: usize },
    /// rejected with a variant this harness does not know (the enum may grow)
    WriteErrOther { debug: String, text_len: usize },
    Flushed(Option<Vec<u8>>),
    Ready(bool),
    DurationMs(u64),
    Init(Vec<u8>),
    Panic { msg: String, loc: String },
    NoObject,
}

#[derive(Debug)]
pub struct FragExec {
    pub build: Res,
    pub ops: Vec<FragRes>,
}

pub fn build_frag(cfg: &FragCfg) -> (Option<FragmentedMuxer>, Res) {
    let vp9 = cfg.vp9.as_ref().map(|v| muxide::codec::vp9::Vp9Config {
        width: v.width,
        height: v.height,
        profile: v.profile,
        bit_depth: v.bit_depth,
        color_space: v.color_space,
        transfer_function: v.transfer_function,
        matrix_coefficients: v.matrix_coefficients,
        level: v.level,
        full_range_flag: v.full_range_flag,
    });
    if cfg.via_builder {
        let r = guarded(|| {
            let mut b = MuxerBuilder::new(Vec::<u8>::new()).video(cfg.codec.to_lib(), cfg.width, cfg.height, cfg.fps.0);
            if let Some(s) = &cfg.sps {
                b = b.with_sps(s.0.clone());
            }
            if let Some(s) = &cfg.pps {
                b = b.with_pps(s.0.clone());
            }
            if let Some(s) = &cfg.vps {
                b = b.with_vps(s.0.clone());
            }
            if let Some(s) = &cfg.av1_seq {
                b = b.with_av1_sequence_header(s.0.clone());
            }
            if let Some(v) = vp9.clone() {
                b = b.with_vp9_config(v);
            }
            b.new_with_fragment()
        });
        match r {
            Ok(Ok(m)) => (Some(m), Res::Ok),
            Ok(Err(e)) => (None, err_to_res(&e).0),
            Err((msg, loc)) => (None, Res::Panic { msg, loc }),
        }
    } else {
        let c = FragmentConfig {
            width: cfg.width,
            height: cfg.height,
            timescale: cfg.timescale,
            fragment_duration_ms: cfg.fragment_duration_ms,
            sps: cfg.sps.as_ref().map(|h| h.0.clone()).unwrap_or_default(),
            pps: cfg.pps.as_ref().map(|h| h.0.clone()).unwrap_or_default(),
            vps: cfg.vps.as_ref().map(|h| h.0.clone()),
            av1_sequence_header: cfg.av1_seq.as_ref().map(|h| h.0.clone()),
            vp9_config: vp9,
        };
        match guarded(|| FragmentedMuxer::new(c)) {
            Ok(m) => (Some(m), Res::Ok),
            Err((msg, loc)) => (None, Res::Panic { msg, loc }),
        }
    }
}

pub fn run_frag(case: &FragCase) -> FragExec {
    run_frag_with(case, &mut |_| {})
}

/// `before_op(i)` runs before operation i (the clock scenario moves the simulated clocks there).
pub fn run_frag_with(case: &FragCase, before_op: &mut dyn FnMut(usize)) -> FragExec {
    install_panic_hook();
    let (mut m, build) = build_frag(&case.cfg);
    let mut out = Vec::with_capacity(case.ops.len());
    for (op_index, op) in case.ops.iter().enumerate() {
        before_op(op_index);
        let mux = match m.as_mut() {
            Some(x) => x,
            None => {
                out.push(FragRes::NoObject);
                continue;
            }
        };
        let r = match op {
            FragOp::Write { pts, dts, data, sync } => guarded(|| match mux.write_video(*pts, *dts, &data.0, *sync) {
                Ok(()) => FragRes::WriteOk,
                Err(e) => {
                    let n = format!("{} {:?} {:#}", e, e, e).len();
                    #[allow(unreachable_patterns)]
                    match e {
                        FragmentedError::NonMonotonicDts { prev_dts, curr_dts } => FragRes::WriteErr { prev: prev_dts, curr: curr_dts, text_len: n },
                        other => FragRes::WriteErrOther { debug: format!("{:?}", other), text_len: n },
                    }
                }
            }),
            FragOp::Flush => guarded(|| FragRes::Flushed(mux.flush_segment())),
            FragOp::Ready => guarded(|| FragRes::Ready(mux.ready_to_flush())),
            FragOp::DurationMs => guarded(|| FragRes::DurationMs(mux.current_fragment_duration_ms())),
            FragOp::Init => guarded(|| FragRes::Init(mux.init_segment())),
        };
        match r {
            Ok(v) => out.push(v),
            Err((msg, loc)) => {
                out.push(FragRes::Panic { msg, loc });
                if let Some(x) = m.take() {
                    let _ = guarded(|| drop(x));
                }
            }
        }
    }
    FragExec { build, ops: out }
}
