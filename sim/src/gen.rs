//! Seeded workload generation (swarm style): every run first draws a profile,
//! then a configuration, then the operation list, then the fault plan — all
//! from the one PRNG of the run.

use crate::case::*;
use crate::frames::{self, FrameShape, Mangle, SizeClass};
use crate::rng::Rng;

#[derive(Clone, Debug)]
pub struct Knobs {
    /// probability (percent) that a run is "long"
    pub long_pct: u64,
    pub long_min: usize,
    pub long_max: usize,
    /// percent of the long runs that are "huge": thousands to tens of thousands of tiny frames
    /// (count thresholds: 255, 1024, 4096, 65535 entries)
    pub huge_of_long_pct: u64,
    pub short_max: usize,
    /// percent chance per position to insert an invalid call
    pub invalid_pct: u64,
    /// percent of runs with reordered (B-frame) video
    pub bframes_pct: u64,
    /// percent of runs that configure audio
    pub audio_pct: u64,
    pub meta_pct: u64,
    /// share (1/1000) of video frames of 60..70 KiB
    pub big_frames: u32,
    /// allow the rare frames of 128 KiB .. 4 MiB
    pub mib_frames: bool,
    /// audio timestamps: percent of runs whose audio clock is skewed / jittered against the nominal frame duration
    pub audio_jitter_pct: u64,
    /// percent of runs using encode_* convenience calls
    pub enc_api_pct: u64,
    /// percent of runs whose start times are non-zero / differ between tracks
    pub start_offset_pct: u64,
    /// adversarial submission order of audio vs video
    pub adversarial_order_pct: u64,
    /// 0 none, 1 benign only, 2 any
    pub fault_mode: u8,
    /// percent of runs that get a fault plan at all (when fault_mode > 0)
    pub fault_pct: u64,
    pub decorate: bool,
    /// percent of runs that end without any finish (drop)
    pub no_finish_pct: u64,
    /// percent of runs with extra ops after the finish
    pub after_finish_pct: u64,
    /// allow oversized dimensions / rates (panics on the pinned tree)
    pub extreme_cfg_pct: u64,
    /// mixed write_video / write_video_with_dts in one history
    pub mixed_api_pct: u64,
    pub long_title_pct: u64,
    /// draw video-less builders sometimes
    pub no_video_cfg_pct: u64,
}

impl Knobs {
    pub fn functional() -> Self {
        Knobs {
            long_pct: 5,
            long_min: 50,
            long_max: 400,
            huge_of_long_pct: 0,
            short_max: 12,
            invalid_pct: 0,
            bframes_pct: 30,
            audio_pct: 60,
            meta_pct: 40,
            big_frames: 4,
            mib_frames: true,
            audio_jitter_pct: 35,
            enc_api_pct: 8,
            start_offset_pct: 30,
            adversarial_order_pct: 30,
            fault_mode: 0,
            fault_pct: 0,
            decorate: true,
            no_finish_pct: 0,
            after_finish_pct: 10,
            extreme_cfg_pct: 0,
            mixed_api_pct: 5,
            long_title_pct: 3,
            no_video_cfg_pct: 0,
        }
    }
    pub fn contract() -> Self {
        Knobs { invalid_pct: 25, after_finish_pct: 40, no_finish_pct: 5, mixed_api_pct: 15, enc_api_pct: 15, no_video_cfg_pct: 2, ..Self::functional() }
    }
}

#[derive(Clone, Copy, Debug, PartialEq)]
pub enum TsStyle {
    Fps30,
    Fps2997,
    Fps23976,
    Fps60,
    TickGrid,
    Vfr,
    MilliGrid,
}

fn frame_time(style: TsStyle, n: u64, vfr_acc: u64) -> f64 {
    match style {
        TsStyle::Fps30 => n as f64 / 30.0,
        TsStyle::Fps2997 => n as f64 * 1001.0 / 30000.0,
        TsStyle::Fps23976 => n as f64 * 1001.0 / 24000.0,
        TsStyle::Fps60 => n as f64 / 60.0,
        TsStyle::TickGrid => (n * 3000) as f64 / 90000.0,
        TsStyle::Vfr => vfr_acc as f64 / 90000.0,
        TsStyle::MilliGrid => (n * 40) as f64 / 1000.0,
    }
}

pub fn draw_cfg(rng: &mut Rng, k: &Knobs) -> ProgCfg {
    let codec = *rng.pick(&VCODECS);
    let (w, h) = if rng.chance(k.extreme_cfg_pct, 100) {
        *rng.pick(&[(65535u32, 65535u32), (65536, 480), (640, 65536), (u32::MAX, u32::MAX), (0, 0), (70000, 70000)])
    } else {
        *rng.pick(&[(640u32, 480u32), (1920, 1080), (320, 240), (3840, 2160), (1, 1), (65535, 2), (1280, 720)])
    };
    let fps = *rng.pick(&[30.0, 29.97, 24.0, 60.0, 1.0, 120.0]);
    let video = if rng.chance(k.no_video_cfg_pct, 100) { None } else { Some(VideoCfg { codec, width: w, height: h, fps: F(fps), alias: rng.chance(1, 5) }) };
    let audio = if rng.chance(k.audio_pct, 100) {
        let codec = if rng.chance(1, 12) { ACodec::NoneCodec } else { *rng.pick(&ACODECS_REAL) };
        let rate = if rng.chance(k.extreme_cfg_pct, 100) {
            *rng.pick(&[0u32, 65535, 65536, 96000, 192000, u32::MAX])
        } else {
            *rng.pick(&[48000u32, 44100, 32000, 22050, 16000, 8000, 24000, 11025, 12000, 7350, 64000])
        };
        let ch = if rng.chance(k.extreme_cfg_pct, 100) { *rng.pick(&[0u16, 9, 255, 256, 65535]) } else { *rng.pick(&[1u16, 2, 2, 2, 6, 8]) };
        Some(AudioCfg { codec, rate, channels: ch, alias: rng.chance(1, 5) })
    } else {
        None
    };
    let meta = if rng.chance(k.meta_pct, 100) {
        let title = if rng.chance(2, 3) {
            let n = if rng.chance(k.long_title_pct, 100) {
                rng.range(300, 70_000) as usize
            } else {
                rng.range(0, 40) as usize
            };
            let mut s = String::new();
            for i in 0..n {
                let c = match rng.below(20) {
                    0 => 'é',
                    1 => '日',
                    2 => '🎬',
                    _ => (b'a' + ((i as u8).wrapping_add(rng.below(26) as u8) % 26)) as char,
                };
                s.push(c);
            }
            Some(s)
        } else {
            None
        };
        let ctime = if rng.bool() { Some(*rng.pick(&[0u64, 1, 951782400, 1700000000, 4102444800, 253402300799, 253402300800, 32_503_680_000, 1_700_000_000_000, 1 << 40])) } else { None };
        let lang = if rng.bool() { Some(rng.pick(&["eng", "spa", "und", "jpn", "zzz", "aaa"]).to_string()) } else { None };
        Some(MetaCfg { title, ctime, lang, style: rng.below(2) as u8 })
    } else {
        None
    };
    let fast_start = match rng.below(3) {
        0 => None,
        1 => Some(true),
        _ => Some(false),
    };
    // builder calls made twice: what was configured first must leave no trace
    let mut video_prior = None;
    let mut audio_prior = None;
    if video.is_some() && rng.chance(1, 12) {
        video_prior = Some(VideoCfg { codec: *rng.pick(&VCODECS), width: 1280, height: 720, fps: F(25.0), alias: rng.bool() });
    }
    if rng.chance(1, 10) {
        let c = if rng.chance(1, 4) { ACodec::NoneCodec } else { *rng.pick(&ACODECS_REAL) };
        audio_prior = Some(AudioCfg { codec: c, rate: *rng.pick(&[48000u32, 44100, 8000]), channels: *rng.pick(&[1u16, 2]), alias: rng.bool() });
    }
    let audio = if audio_prior.is_some() && audio.is_none() {
        // switched off again explicitly (a prior call is always followed by a final one, which wins)
        Some(AudioCfg { codec: ACodec::NoneCodec, rate: 0, channels: 0, alias: rng.bool() })
    } else {
        audio
    };
    ProgCfg { video, audio, video_prior, audio_prior, fast_start, meta, sink: SinkKind::Sim }
}

/// One planned media event before it is turned into an op.
#[derive(Clone, Debug)]
struct Ev {
    time: f64,
    op: Op,
}

pub struct GenInfo {
    pub n_video: usize,
    pub n_audio: usize,
    pub reordered: bool,
    pub invalid_inserted: usize,
    pub style: TsStyle,
}

/// The general S-PROG history generator.
pub fn gen_prog(rng: &mut Rng, k: &Knobs) -> (ProgCase, GenInfo) {
    let cfg = draw_cfg(rng, k);
    gen_prog_with_cfg(rng, k, cfg)
}

pub fn gen_prog_with_cfg(rng: &mut Rng, k: &Knobs, cfg: ProgCfg) -> (ProgCase, GenInfo) {
    let codec = cfg.video.as_ref().map(|v| v.codec).unwrap_or(VCodec::H264);
    let acodec = cfg.audio_effective().map(|a| a.codec);
    let arate = cfg.audio_effective().map(|a| a.rate).unwrap_or(48000).max(1);
    let long = rng.chance(k.long_pct, 100);
    let huge = long && rng.chance(k.huge_of_long_pct, 100);
    let n_video = if huge {
        *rng.pick(&[1500usize, 4097, 5000, 20000, 65535, 65536, 65537, 70000])
    } else if long {
        rng.range(k.long_min as u64, k.long_max as u64) as usize
    } else {
        match rng.below(10) {
            0 => 0,
            1 => 1,
            2 => 2,
            _ => rng.range(1, k.short_max as u64) as usize,
        }
    };
    let style = *rng.pick(&[TsStyle::Fps30, TsStyle::Fps2997, TsStyle::Fps23976, TsStyle::Fps60, TsStyle::TickGrid, TsStyle::Vfr, TsStyle::MilliGrid]);
    let reordered = n_video >= 3 && rng.chance(k.bframes_pct, 100);
    let use_enc = !reordered && rng.chance(k.enc_api_pct, 100);
    let mixed = !use_enc && rng.chance(k.mixed_api_pct, 100);
    let vstart = if rng.chance(k.start_offset_pct, 100) {
        // includes starts around and beyond 2^32 ticks (13.25 h): wall-clock / uptime based timestamps
        *rng.pick(&[0.5f64, 1.0, 10.0, 3600.0, 0.0333, 1.0 / 3.0, 100000.0 / 90000.0, 47721.0, 47721.8, 50000.0, 1_000_000.0])
    } else {
        0.0
    };
    let big = if long { 0 } else { k.big_frames };
    let mut stamp = rng.next_u64() | 1;
    let mut next_stamp = || {
        stamp = stamp.wrapping_mul(6364136223846793005).wrapping_add(1442695040888963407);
        stamp
    };

    // ---- video events in decode order
    let mut vfr_acc: u64 = 0;
    let mut dts_list: Vec<f64> = Vec::with_capacity(n_video);
    for n in 0..n_video as u64 {
        if style == TsStyle::Vfr && n > 0 {
            vfr_acc += match rng.below(8) {
                0 => 1,
                1 => rng.range(2, 100),
                2 => rng.range(90000, 900000),
                _ => rng.range(1000, 9000),
            };
        }
        dts_list.push(vstart + frame_time(style, n, vfr_acc));
    }
    // display slots
    let mut pts_list = dts_list.clone();
    let mut delay_frames = 0u64;
    if reordered {
        // groups in decode order: anchor first (displayed last in the group), then the B pictures
        let mut order: Vec<usize> = (0..n_video).collect();
        let mut i = 1;
        while i < n_video {
            let g = rng.range(2, 4).min((n_video - i) as u64) as usize;
            if g >= 2 {
                // decode positions i..i+g : anchor takes the last display slot
                let slots: Vec<usize> = (i..i + g).collect();
                order[i] = slots[g - 1];
                for j in 1..g {
                    order[i + j] = slots[j - 1];
                }
            }
            i += g.max(1);
        }
        // non-negative offsets need a presentation delay; sometimes leave it out (negative offsets)
        delay_frames = if rng.chance(2, 3) { rng.range(1, 3) } else { 0 };
        let step = if n_video > 1 { (dts_list[n_video - 1] - dts_list[0]) / (n_video as f64 - 1.0) } else { 0.0 };
        for d in 0..n_video {
            // presentation time = the decode time of the display slot (+ delay)
            pts_list[d] = dts_list[order[d]] + delay_frames as f64 * step;
        }
        // open-GOP leading pictures: decoded right after the first key frame but presented BEFORE it
        // (pts earlier than the first frame's decode time); legal as long as pts stays non-negative
        if n_video >= 3 && dts_list[0] > 0.0 && rng.chance(1, 4) {
            let lead = rng.range(1, 2.min(n_video as u64 - 1)) as usize;
            for j in 1..=lead {
                let p = dts_list[0] - step.max(1.0 / 90000.0) * (lead + 1 - j) as f64 * 0.5;
                if p >= 0.0 {
                    pts_list[j] = p;
                }
            }
        }
    }
    let mut events: Vec<Ev> = Vec::new();
    for n in 0..n_video {
        let is_first = n == 0;
        let key = is_first || rng.chance(1, 8);
        let shape = if is_first {
            FrameShape::KeyWithConfig
        } else if key {
            if rng.bool() {
                FrameShape::KeyWithConfig
            } else {
                FrameShape::KeyNoConfig
            }
        } else {
            FrameShape::Delta
        };
        let size = if huge { rng.range(1, 12) as usize } else { SizeClass::draw_ex(rng, big, k.mib_frames) };
        let f = frames::build_video(rng, codec, shape, next_stamp(), size, k.decorate);
        let cc = f.has_config;
        // after the first frame the caller's flag decides, whatever the payload holds: now and then it disagrees
        let key = if !is_first && !use_enc && rng.chance(3, 100) { !key } else { key };
        let op = if reordered || (mixed && rng.bool()) {
            Op::VideoDts { pts: F(pts_list[n]), dts: F(dts_list[n]), data: Hex(f.data), key, cc }
        } else if use_enc {
            // duration until the next frame in ms (the auto clock is the library's; the model mirrors it)
            let dur = match style {
                TsStyle::Fps30 | TsStyle::TickGrid => 33,
                TsStyle::Fps60 => 17,
                TsStyle::MilliGrid => 40,
                _ => rng.range(1, 100) as u32,
            };
            Op::EncVideo { data: Hex(f.data), dur_ms: dur, cc }
        } else {
            Op::Video { pts: F(pts_list[n]), data: Hex(f.data), key, cc }
        };
        events.push(Ev { time: dts_list[n], op });
    }

    // ---- audio events
    let mut n_audio = 0usize;
    if let Some(ac) = acodec {
        if n_video > 0 && !rng.chance(1, 10) {
            let first_v = if use_enc { 0.0 } else { pts_list[0] };
            let span = if n_video > 1 { dts_list[n_video - 1] - dts_list[0] } else { 0.1 };
            let frame_dur = if ac == ACodec::Opus { 960.0 / 48000.0 } else { 1024.0 / arate as f64 };
            let astart_off = if rng.chance(k.start_offset_pct, 100) { *rng.pick(&[0.25f64, 1.0, 0.01, 2.5]) } else { 0.0 };
            let mut want = ((span.min(if huge { 3000.0 } else { 30.0 })) / frame_dur).ceil() as usize + 1;
            want = want.min(if huge { 140_000 } else if long { 600 } else { 24 });
            if rng.chance(1, 6) {
                want = rng.range(1, 3) as usize;
            }
            n_audio = want;
            let use_enc_a = use_enc || rng.chance(k.enc_api_pct, 200);
            let mut t = first_v + astart_off;
            let vary_samples = rng.chance(1, 3);
            let mut enc_step = 0.0f64;
            let _ = &mut enc_step;
            // audio clock style: nominal, steady skew (e.g. 20.5 ms for 20 ms packets), random jitter within +-1 ms, irregular
            let astyle = if rng.chance(k.audio_jitter_pct, 100) { rng.range(1, 3) } else { 0 };
            let skew = *rng.pick(&[1.025f64, 0.98, 1.0005, 1.04]);
            for i in 0..want {
                let size = if huge { rng.range(1, 8) as usize } else { rng.range(1, 400) as usize };
                let f = frames::build_audio(rng, ac, next_stamp(), size, k.decorate);
                let op = if use_enc_a && astart_off == 0.0 && first_v == 0.0 {
                    // packet durations may change mid-stream (Opus 2.5 .. 60 ms; AAC 960 / 1024 / 2048 per frame)
                    let samples = if !vary_samples {
                        if ac == ACodec::Opus { 960 } else { 1024 }
                    } else if ac == ACodec::Opus {
                        *rng.pick(&[120u32, 240, 480, 960, 960, 1920, 2880])
                    } else {
                        *rng.pick(&[1024u32, 1024, 960, 2048])
                    };
                    enc_step = samples as f64 / arate as f64;
                    Op::EncAudio { data: Hex(f.data), samples }
                } else {
                    Op::Audio { pts: F(t), data: Hex(f.data) }
                };
                events.push(Ev { time: t, op });
                if !(i > 0 && rng.chance(1, 12)) {
                    t += match astyle {
                        1 => frame_dur * skew,
                        2 => (frame_dur + (rng.below(181) as f64 - 90.0) / 90000.0).max(1.0 / 90000.0),
                        3 => frame_dur * (*rng.pick(&[0.5f64, 1.0, 1.5, 3.0])),
                        _ => frame_dur,
                    };
                }
            }
        }
    }

    // ---- submission order
    let first_video = if n_video > 0 { Some(events.remove(0)) } else { None };
    let (mut vids, mut auds): (Vec<Ev>, Vec<Ev>) = events.into_iter().partition(|e| !matches!(e.op, Op::Audio { .. } | Op::EncAudio { .. }));
    let mut ordered: Vec<Ev> = Vec::new();
    if let Some(f) = first_video {
        ordered.push(f);
    }
    if rng.chance(k.adversarial_order_pct, 100) {
        match rng.below(4) {
            0 => {
                ordered.append(&mut vids);
                ordered.append(&mut auds);
            }
            1 => {
                ordered.append(&mut auds);
                ordered.append(&mut vids);
            }
            2 => {
                // strict alternation
                let mut vi = vids.into_iter();
                let mut ai = auds.into_iter();
                loop {
                    let a = ai.next();
                    let v = vi.next();
                    if a.is_none() && v.is_none() {
                        break;
                    }
                    if let Some(a) = a {
                        ordered.push(a);
                    }
                    if let Some(v) = v {
                        ordered.push(v);
                    }
                }
            }
            _ => {
                // bursts
                let mut vi = vids.into_iter().peekable();
                let mut ai = auds.into_iter().peekable();
                while vi.peek().is_some() || ai.peek().is_some() {
                    let b = rng.range(1, 6);
                    for _ in 0..b {
                        if let Some(v) = vi.next() {
                            ordered.push(v);
                        }
                    }
                    let b = rng.range(1, 8);
                    for _ in 0..b {
                        if let Some(a) = ai.next() {
                            ordered.push(a);
                        }
                    }
                }
            }
        }
    } else {
        // natural: merge by time, stable (video first on ties)
        let mut all: Vec<Ev> = Vec::new();
        all.append(&mut vids);
        all.append(&mut auds);
        all.sort_by(|a, b| a.time.partial_cmp(&b.time).unwrap_or(std::cmp::Ordering::Equal));
        ordered.append(&mut all);
    }
    let mut ops: Vec<Op> = ordered.into_iter().map(|e| e.op).collect();

    // ---- invalid calls
    let mut invalid_inserted = 0;
    if k.invalid_pct > 0 {
        let mut out: Vec<Op> = Vec::with_capacity(ops.len() + 4);
        let mut last_t = vstart;
        // rejected first calls before anything else (up to three: what one leaves behind may change the next)
        for _ in 0..3 {
            if !rng.chance(k.invalid_pct, 100) {
                break;
            }
            out.push(invalid_op(rng, codec, acodec, last_t, true, k, &mut next_stamp));
            invalid_inserted += 1;
        }
        for op in ops.into_iter() {
            if let Op::Video { pts, .. } | Op::VideoDts { pts, .. } | Op::Audio { pts, .. } = &op {
                if pts.0.is_finite() {
                    last_t = pts.0;
                }
            }
            out.push(op);
            if rng.chance(k.invalid_pct, 100) {
                out.push(invalid_op(rng, codec, acodec, last_t, false, k, &mut next_stamp));
                invalid_inserted += 1;
            }
        }
        ops = out;
    }

    // ---- finish and afterwards
    if rng.chance(k.no_finish_pct, 100) {
        if rng.bool() {
            ops.push(Op::Drop);
        }
    } else {
        let fk = *rng.pick(&FINISH_KINDS);
        // a finish in the middle (then everything after must be rejected)
        if k.invalid_pct > 0 && !ops.is_empty() && rng.chance(1, 12) {
            let pos = rng.usize(ops.len());
            let mid = *rng.pick(&[FinishKind::InPlace, FinishKind::InPlaceStats]);
            ops.insert(pos, Op::Finish(mid));
        }
        ops.push(Op::Finish(fk));
        if rng.chance(k.after_finish_pct, 100) {
            let n = rng.range(1, 4);
            for _ in 0..n {
                let t = vstart + 1000.0 + rng.below(100) as f64;
                let op = match rng.below(6) {
                    0 => {
                        let f = frames::build_video(rng, codec, FrameShape::KeyWithConfig, next_stamp(), 20, false);
                        Op::Video { pts: F(t), data: Hex(f.data), key: true, cc: true }
                    }
                    1 => {
                        let f = frames::build_video(rng, codec, FrameShape::KeyWithConfig, next_stamp(), 20, false);
                        Op::VideoDts { pts: F(t), dts: F(t), data: Hex(f.data), key: true, cc: true }
                    }
                    2 => {
                        let f = frames::build_audio(rng, acodec.unwrap_or(ACodec::AacLc), next_stamp(), 20, false);
                        Op::Audio { pts: F(t), data: Hex(f.data) }
                    }
                    3 => {
                        let f = frames::build_video(rng, codec, FrameShape::KeyWithConfig, next_stamp(), 20, false);
                        Op::EncVideo { data: Hex(f.data), dur_ms: 33, cc: true }
                    }
                    4 => {
                        let f = frames::build_audio(rng, acodec.unwrap_or(ACodec::AacLc), next_stamp(), 20, false);
                        Op::EncAudio { data: Hex(f.data), samples: 1024 }
                    }
                    _ => Op::Finish(*rng.pick(&FINISH_KINDS)),
                };
                ops.push(op);
            }
        }
    }

    // huge histories run fault-free: a byte-at-a-time sink under megabytes of output tests the sink, not the muxer
    let faults = if huge { FaultPlan::default() } else { draw_faults(rng, k) };
    (ProgCase { cfg, ops, faults }, GenInfo { n_video, n_audio, reordered, invalid_inserted, style })
}

fn invalid_op(rng: &mut Rng, codec: VCodec, acodec: Option<ACodec>, now: f64, first: bool, k: &Knobs, next_stamp: &mut impl FnMut() -> u64) -> Op {
    let bad_ts = |rng: &mut Rng| -> f64 {
        *rng.pick(&[f64::NAN, f64::INFINITY, f64::NEG_INFINITY, -1.0, -0.0, -1e-9, -f64::MIN_POSITIVE, 1e300, f64::MAX, 4e9, 2.0f64.powi(53)])
    };
    let near = |rng: &mut Rng| -> f64 {
        match rng.below(8) {
            0 => now,
            1 => now - 1.0 / 90000.0,
            2 => (now - 1.0).max(0.0),
            3 => now + 1e-7,
            4 => now + 0.4 / 90000.0,
            5 => 0.0,
            6 => now + 50000.0, // > 2^32 ticks away
            _ => now + 0.001,
        }
    };
    let good_v = |rng: &mut Rng, shape: FrameShape, st: u64| frames::build_video(rng, codec, shape, st, 24, k.decorate);
    let ac = acodec.unwrap_or(ACodec::AacLc);
    match rng.below(15) {
        14 if matches!(codec, VCodec::H264 | VCodec::H265) && rng.chance(1, 3) => {
            // a keyframe whose parameter set does not fit the 16-bit length of avcC/hvcC (refused by the writer)
            let hevc = codec == VCodec::H265;
            let big: Vec<u8> = (0..65_600usize).map(|i| 1 + (i % 250) as u8).collect();
            let mk = |t: u8, body: &[u8]| -> Vec<u8> {
                let mut v = vec![0, 0, 0, 1];
                if hevc {
                    v.push(t << 1);
                    v.push(1);
                } else {
                    v.push(0x60 | t);
                }
                v.extend_from_slice(body);
                v
            };
            let which = rng.below(3);
            let mut d = Vec::new();
            if hevc {
                d.extend(mk(32, if which == 0 { &big } else { &big[..8] }));
                d.extend(mk(33, if which == 1 { &big } else { &big[..20] }));
                d.extend(mk(34, if which == 2 { &big } else { &big[..6] }));
                d.extend(mk(19, &big[..10]));
            } else {
                d.extend(mk(7, if which != 2 { &big } else { &big[..8] }));
                d.extend(mk(8, if which == 2 { &big } else { &big[..6] }));
                d.extend(mk(5, &big[..10]));
            }
            Op::Video { pts: F(near(rng)), data: Hex(d), key: true, cc: false }
        }
        0 | 14 => {
            let f = good_v(rng, FrameShape::KeyWithConfig, next_stamp());
            Op::Video { pts: F(bad_ts(rng)), key: true, cc: f.has_config, data: Hex(f.data) }
        }
        1 => Op::Video { pts: F(near(rng)), data: Hex(vec![]), key: rng.bool(), cc: false },
        2 => {
            // delta / no-config / config-without-key frame (wrong as a first frame)
            let shape = *rng.pick(&[FrameShape::Delta, FrameShape::KeyNoConfig, FrameShape::ConfigNoKey]);
            let f = good_v(rng, shape, next_stamp());
            let key = if first { rng.bool() } else { shape != FrameShape::Delta };
            Op::Video { pts: F(near(rng)), data: Hex(f.data), key, cc: false }
        }
        3 => {
            let f = good_v(rng, FrameShape::KeyWithConfig, next_stamp());
            let how = *rng.pick(&[Mangle::Truncate, Mangle::BitFlip, Mangle::Random]);
            let d = frames::mangle(rng, &f.data, how);
            Op::Video { pts: F(near(rng)), data: Hex(d), key: true, cc: false }
        }
        4 => {
            let f = good_v(rng, FrameShape::KeyWithConfig, next_stamp());
            let (p, d) = match rng.below(6) {
                0 => (near(rng), bad_ts(rng)),
                1 => (bad_ts(rng), near(rng)),
                2 => (near(rng), near(rng)),
                3 => (now + 1.0, now),
                // legal decode-time successor whose composition offset does not fit 32 bits
                4 => (now + 30000.0, now + 0.05),
                _ => ((now - 25000.0).max(0.0), now + 25000.0 + 0.05),
            };
            Op::VideoDts { pts: F(p), dts: F(d), key: true, cc: f.has_config, data: Hex(f.data) }
        }
        5 => {
            let f = frames::build_audio(rng, ac, next_stamp(), 16, k.decorate);
            Op::Audio { pts: F(bad_ts(rng)), data: Hex(f.data) }
        }
        6 => Op::Audio { pts: F(near(rng)), data: Hex(vec![]) },
        7 => {
            let f = frames::build_audio(rng, ac, next_stamp(), 16, k.decorate);
            let how = *rng.pick(&[Mangle::Truncate, Mangle::BitFlip, Mangle::Random, Mangle::BitFlip, if ac == ACodec::Opus { Mangle::BitFlip } else { Mangle::AdtsField }]);
            let d = frames::mangle(rng, &f.data, how);
            Op::Audio { pts: F(near(rng)), data: Hex(d) }
        }
        8 => {
            // valid audio frame at a questionable time
            let f = frames::build_audio(rng, ac, next_stamp(), 16, k.decorate);
            Op::Audio { pts: F(near(rng)), data: Hex(f.data) }
        }
        9 => Op::EncVideo { data: Hex(if rng.chance(1, 3) { vec![] } else { good_v(rng, FrameShape::Delta, next_stamp()).data }), dur_ms: *rng.pick(&[0u32, 1, 33, u32::MAX]), cc: false },
        10 => {
            let f = frames::build_audio(rng, ac, next_stamp(), 16, k.decorate);
            let how = if ac != ACodec::Opus && rng.bool() { Mangle::AdtsField } else { Mangle::BitFlip };
            let d = if rng.chance(1, 3) { frames::mangle(rng, &f.data, how) } else { f.data };
            Op::EncAudio { data: Hex(d), samples: *rng.pick(&[0u32, 960, 1024, u32::MAX]) }
        }
        11 => {
            // a perfectly valid video frame at a time that is already taken
            let f = good_v(rng, FrameShape::KeyWithConfig, next_stamp());
            Op::Video { pts: F(near(rng)), key: true, cc: f.has_config, data: Hex(f.data) }
        }
        12 => {
            // garbage that contains start codes / empty units
            let mut d = vec![0, 0, 1];
            if rng.bool() {
                d.extend_from_slice(&[0, 0, 0, 1]);
            }
            let n = rng.range(0, 6) as usize;
            d.extend(rng.bytes(n));
            Op::Video { pts: F(near(rng)), data: Hex(d), key: true, cc: false }
        }
        _ => {
            let d = frames::mangle(rng, &[], Mangle::ZeroPayloadAdts);
            Op::Audio { pts: F(near(rng)), data: Hex(d) }
        }
    }
}

pub fn draw_faults(rng: &mut Rng, k: &Knobs) -> FaultPlan {
    let mut p = FaultPlan::default();
    if k.fault_mode == 0 || !rng.chance(k.fault_pct, 100) {
        return p;
    }
    // benign schedule
    if rng.chance(2, 3) {
        let n = rng.range(1, 12) as usize;
        for _ in 0..n {
            p.pattern.push(*rng.pick(&[0u8, 0, 1, 2, 3, 4]));
        }
    }
    let n = rng.below(4);
    for _ in 0..n {
        let call = rng.range(1, 40) as u32;
        let f = match rng.below(4) {
            0 => Fault::Short1,
            1 => Fault::ShortHalf,
            2 => Fault::ShortAllButOne,
            _ => Fault::Interrupted(rng.range(1, 4) as u8),
        };
        p.at_call.push((call, f));
    }
    if k.fault_mode >= 2 && rng.bool() {
        let ek = *rng.pick(&ERRK_ALL);
        match rng.below(4) {
            0 => p.at_call.push((rng.range(1, 30) as u32, Fault::ErrOnce(ek))),
            1 => p.at_call.push((rng.range(1, 30) as u32, Fault::Die(ek))),
            2 => p.at_call.push((rng.range(1, 30) as u32, Fault::Zero)),
            _ => p.die_at_byte = Some((rng.below(3000), ek)),
        }
    }
    p
}

// ---------------------------------------------------------------- C16 boundary histories

pub fn gen_boundary(rng: &mut Rng) -> ProgCase {
    let mut k = Knobs::functional();
    k.meta_pct = 20;
    k.long_title_pct = 0;
    let mut cfg = draw_cfg(rng, &k);
    let codec = cfg.video.as_ref().unwrap().codec;
    let mut stamp = rng.next_u64();
    let mut next = || {
        stamp = stamp.wrapping_add(0x9e3779b97f4a7c15);
        stamp
    };
    let mut ops: Vec<Op> = Vec::new();
    let t32 = 4294967296u64; // 2^32 ticks
    let secs = |ticks: u64| ticks as f64 / 90000.0;
    let scenario = rng.below(9);
    let mut vid = |rng: &mut Rng, ops: &mut Vec<Op>, pts_ticks: u64, dts_ticks: Option<u64>, first: bool| {
        let shape = if first { FrameShape::KeyWithConfig } else { FrameShape::Delta };
        let f = frames::build_video(rng, codec, shape, next(), 12, false);
        match dts_ticks {
            Some(d) => ops.push(Op::VideoDts { pts: F(secs(pts_ticks)), dts: F(secs(d)), data: Hex(f.data), key: first, cc: first }),
            None => ops.push(Op::Video { pts: F(secs(pts_ticks)), data: Hex(f.data), key: first, cc: first }),
        }
    };
    match scenario {
        0 => {
            // one inter-frame gap around 2^32 ticks
            let gap = t32 - 2 + rng.below(5);
            let start = *rng.pick(&[0u64, 1, 90000]);
            vid(rng, &mut ops, start, None, true);
            vid(rng, &mut ops, start + gap, None, false);
            if rng.bool() {
                vid(rng, &mut ops, start + gap + 3000, None, false);
            }
        }
        1 => {
            // total duration crosses 2^32 ticks with three or more frames, each gap legal
            let n = rng.range(3, 6);
            let total = t32 - 3 + rng.below(200000);
            let mut t = 0u64;
            vid(rng, &mut ops, 0, None, true);
            for i in 1..n {
                t = total * i / (n - 1);
                vid(rng, &mut ops, t, None, false);
            }
            let _ = t;
        }
        2 => {
            // movie duration in ms crossing 2^32 ms needs > 90 gaps of < 2^32 ticks
            let n = rng.range(92, 100);
            let gap = t32 - 1 - rng.below(1000);
            vid(rng, &mut ops, 0, None, true);
            for i in 1..n {
                vid(rng, &mut ops, gap * i, None, false);
            }
        }
        3 => {
            // |pts - dts| around 2^31
            let off = (1u64 << 31) - 2 + rng.below(5);
            let neg = rng.bool();
            let base = if neg { off + 10 } else { 0 };
            // whole ticks, or timestamps with fractional tick parts that round in opposite directions
            let frac = rng.chance(1, 2);
            for i in 0..3u64 {
                let d = base + i * 3000;
                let p = if i == 1 {
                    if neg {
                        d - off
                    } else {
                        d + off
                    }
                } else {
                    d
                };
                if frac && i == 1 {
                    let (fp, fd) = *rng.pick(&[(0.7f64, 0.4f64), (0.4, 0.7), (0.6, 0.3), (0.3, 0.6), (0.49, 0.0), (0.0, 0.49)]);
                    let shape = FrameShape::Delta;
                    let f = frames::build_video(rng, codec, shape, p ^ 0x5a5a, 12, false);
                    ops.push(Op::VideoDts { pts: F((p as f64 + fp) / 90000.0), dts: F((d as f64 + fd) / 90000.0), data: Hex(f.data), key: false, cc: false });
                } else {
                    vid(rng, &mut ops, p, Some(d), i == 0);
                }
            }
        }
        4 => {
            // parameter sets around 2^16 bytes (H.264/H.265 only; others: dimensions)
            if matches!(codec, VCodec::H264 | VCodec::H265) {
                let n = 65533 + rng.below(5) as usize;
                let hevc = codec == VCodec::H265;
                let mut body = vec![0x55u8; n];
                for (i, b) in body.iter_mut().enumerate() {
                    *b = 1 + (i % 250) as u8;
                }
                let mk = |t: u8, body: &[u8]| -> Vec<u8> {
                    let mut v = vec![0, 0, 0, 1];
                    if hevc {
                        v.push(t << 1);
                        v.push(1);
                    } else {
                        v.push(0x60 | t);
                    }
                    v.extend_from_slice(body);
                    v
                };
                let which = rng.below(3);
                let mut d = Vec::new();
                if hevc {
                    d.extend(mk(32, if which == 0 { &body } else { &body[..8] }));
                    d.extend(mk(33, if which == 1 { &body } else { &body[..20] }));
                    d.extend(mk(34, if which == 2 { &body } else { &body[..6] }));
                    d.extend(mk(19, &body[..10]));
                } else {
                    d.extend(mk(7, if which != 2 { &body } else { &body[..8] }));
                    d.extend(mk(8, if which == 2 { &body } else { &body[..6] }));
                    d.extend(mk(5, &body[..10]));
                }
                ops.push(Op::Video { pts: F(0.0), data: Hex(d), key: true, cc: true });
                vid(rng, &mut ops, 3000, None, false);
            } else {
                cfg.video.as_mut().unwrap().width = *rng.pick(&[65535u32, 65536, 65537]);
                vid(rng, &mut ops, 0, None, true);
            }
        }
        5 => {
            // dimensions around 2^16 and 2^32
            let v = cfg.video.as_mut().unwrap();
            v.width = *rng.pick(&[65535u32, 65536, 65537, u32::MAX, 1 << 31]);
            v.height = *rng.pick(&[65535u32, 65536, 1080, u32::MAX]);
            vid(rng, &mut ops, 0, None, true);
            vid(rng, &mut ops, 3000, None, false);
        }
        6 => {
            // audio sample rates / channel counts beyond their fields
            let ac = *rng.pick(&[ACodec::AacLc, ACodec::Opus]);
            cfg.audio = Some(AudioCfg { codec: ac, rate: *rng.pick(&[65535u32, 65536, 88200, 96000, 192000]), channels: *rng.pick(&[2u16, 255, 256, 257, 15, 16]), alias: false });
            vid(rng, &mut ops, 0, None, true);
            let f = frames::build_audio(rng, ac, next(), 20, false);
            ops.push(Op::Audio { pts: F(0.0), data: Hex(f.data) });
            let f = frames::build_audio(rng, ac, next(), 20, false);
            ops.push(Op::Audio { pts: F(0.02), data: Hex(f.data) });
        }
        7 => {
            // timestamps near 2^53 ticks and beyond u64
            let base = *rng.pick(&[(1u64 << 53) - 4, 1u64 << 53, (1u64 << 53) + 4, 1u64 << 60]);
            vid(rng, &mut ops, base, None, true);
            vid(rng, &mut ops, base + 4096, None, false);
            if rng.bool() {
                let f = frames::build_video(rng, codec, FrameShape::Delta, next(), 12, false);
                ops.push(Op::Video { pts: F(*rng.pick(&[1e300, 1.8e19 / 90000.0 * 2.0, 3e14])), data: Hex(f.data), key: false, cc: false });
            }
        }
        _ => {
            // audio gap around 2^32 and audio total duration crossing 2^32
            let ac = ACodec::AacLc;
            cfg.audio = Some(AudioCfg { codec: ac, rate: 48000, channels: 2, alias: false });
            vid(rng, &mut ops, 0, None, true);
            let gap = t32 - 2 + rng.below(5);
            let n = rng.range(2, 4);
            for i in 0..n {
                let f = frames::build_audio(rng, ac, next(), 20, false);
                let t = if rng.bool() { gap * i } else { (t32 / 2 + 7) * i };
                ops.push(Op::Audio { pts: F(secs(t)), data: Hex(f.data) });
            }
        }
    }
    ops.push(Op::Finish(FinishKind::InPlaceStats));
    ProgCase { cfg, ops, faults: FaultPlan::default() }
}

// ---------------------------------------------------------------- fragmented

pub struct FragKnobs {
    pub reject_pct: u64,
    pub boundary: bool,
    pub big: bool,
    pub long_pct: u64,
}

pub fn gen_frag(rng: &mut Rng, k: &FragKnobs) -> FragCase {
    let codec = *rng.pick(&VCODECS);
    let via_builder = rng.chance(2, 3);
    let ps = |rng: &mut Rng, lo: u64, hi: u64| -> Hex {
        let n = rng.range(lo, hi) as usize;
        let mut v = rng.bytes(n);
        // the forms callers really pass: with an Annex B start code in front, with trailing zero bytes
        match rng.below(8) {
            0 => v.splice(0..0, [0u8, 0, 1]).for_each(drop),
            1 => v.splice(0..0, [0u8, 0, 0, 1]).for_each(drop),
            2 => v.extend_from_slice(&[0u8; 2][..rng.range(1, 2) as usize]),
            _ => {}
        }
        Hex(v)
    };
    let mut cfg = FragCfg {
        via_builder,
        codec,
        width: *rng.pick(&[1920u32, 640, 1, 65535]),
        height: *rng.pick(&[1080u32, 480, 1, 65535]),
        timescale: if via_builder { 90000 } else { *rng.pick(&[90000u32, 1000, 48000, 1, 30000]) },
        fragment_duration_ms: if via_builder { 2000 } else { *rng.pick(&[2000u32, 1, 0, 100, u32::MAX]) },
        fps: F(if k.boundary { *rng.pick(&[30.0f64, 0.0, 0.25, 1.0 / 60.0, 0.49, 0.5, f64::MIN_POSITIVE, -1.0, f64::NAN, f64::INFINITY, 1e308, 29.97]) } else { *rng.pick(&[30.0f64, 29.97, 24.0, 60.0, 1.0, 0.25]) }),
        sps: None,
        pps: None,
        vps: None,
        av1_seq: None,
        vp9: None,
    };
    let (lo, hi) = if rng.chance(1, 10) { (0, 3) } else { (1, 40) };
    match codec {
        VCodec::H264 => {
            cfg.sps = Some(ps(rng, lo, hi));
            cfg.pps = Some(ps(rng, lo, hi));
        }
        VCodec::H265 => {
            cfg.vps = Some(ps(rng, lo, hi));
            cfg.sps = Some(ps(rng, lo, hi));
            cfg.pps = Some(ps(rng, lo, hi));
        }
        VCodec::Av1 => {
            cfg.av1_seq = Some(ps(rng, lo, hi));
            if !via_builder {
                cfg.sps = Some(Hex(vec![]));
                cfg.pps = Some(Hex(vec![]));
            }
        }
        VCodec::Vp9 => {
            cfg.vp9 = Some(Vp9Cfg {
                width: 640,
                height: 480,
                profile: rng.below(4) as u8,
                bit_depth: *rng.pick(&[8u8, 10, 12]),
                color_space: rng.below(8) as u8,
                transfer_function: rng.below(8) as u8,
                matrix_coefficients: rng.below(2) as u8,
                level: rng.below(64) as u8,
                full_range_flag: rng.below(2) as u8,
            });
        }
    }
    if k.boundary && rng.chance(1, 3) {
        // parameter sets around 2^16 bytes
        let n = 65533 + rng.below(5) as usize;
        let big = Hex((0..n).map(|i| (i % 251) as u8 + 1).collect());
        match codec {
            VCodec::H264 | VCodec::H265 => {
                if rng.bool() {
                    cfg.sps = Some(big)
                } else {
                    cfg.pps = Some(big)
                }
            }
            _ => {}
        }
        cfg.width = *rng.pick(&[65535u32, 65536, u32::MAX]);
    }

    let long = rng.chance(k.long_pct, 100);
    // huge: thousands of tiny samples, either all in one fragment or one fragment each (count thresholds:
    // more than 255 / 1024 / 65535 samples in a run, more than 255 / 65535 sequence numbers)
    let huge = long && !k.boundary && rng.chance(2, 100);
    let huge_one_fragment = huge && rng.bool();
    let n_ops = if huge { *rng.pick(&[300usize, 1100, 4200, 66000]) } else if long { rng.range(40, 300) as usize } else { rng.range(1, 16) as usize };
    let mut ops = Vec::with_capacity(n_ops);
    let step_style = rng.below(5);
    let start: u64 = if k.boundary {
        *rng.pick(&[0u64, (1 << 32) - 3000, (1u64 << 32) + 1, u64::MAX - 100_000, 1 << 53])
    } else {
        // mostly small; sometimes a few frames short of 2^32 / 2^33 ticks (a live stream 13 h / 26 h in), so that
        // consecutive fragments straddle the point where the decode time needs its upper word
        *rng.pick(&[0u64, 0, 0, 1000, 90000, 123456789, (1 << 32) - 9000, (1 << 32) - 20011, (1 << 33) - 12000])
    };
    let mut dts = start;
    let mut first = true;
    let mut stamp = rng.next_u64();
    // a flush policy: after every sample / every k samples / random
    let flush_every = match rng.below(4) {
        _ if huge => (!huge_one_fragment) as u64,
        0 => 1,
        1 => rng.range(2, 5),
        _ => 0,
    };
    let mut since_flush = 0u64;
    let reorder = rng.chance(1, 3);
    for _ in 0..n_ops {
        let r = if huge { rng.below(60 + 2 * (!huge_one_fragment) as u64) * 100 / 100 } else { rng.below(100) };
        if r < 60 || first {
            if !first {
                dts = dts.wrapping_add(match step_style {
                    0 => 3000,
                    1 => 3003,
                    2 => rng.range(1, 6000),
                    3 => {
                        if rng.chance(1, 4) {
                            0
                        } else {
                            1500
                        }
                    }
                    _ => {
                        if k.boundary && rng.chance(1, 4) {
                            (1u64 << 32) - 2 + rng.below(4)
                        } else {
                            3000
                        }
                    }
                });
            }
            let mut this_dts = dts;
            if !first && rng.chance(k.reject_pct, 100) {
                // a write that must be rejected (lower decode time), not remembered
                this_dts = dts.saturating_sub(rng.range(1, 5000));
                if this_dts == dts {
                    this_dts = dts; // dts == 0: cannot go lower; equal is legal
                }
            }
            let pts = if reorder {
                if k.boundary && rng.chance(1, 6) {
                    this_dts.wrapping_add((1u64 << 31) - 2 + rng.below(4))
                } else if rng.bool() {
                    this_dts.wrapping_add(rng.below(4) * 3000)
                } else {
                    this_dts.saturating_sub(rng.below(3) * 1500)
                }
            } else {
                this_dts
            };
            stamp = stamp.wrapping_add(0x9e3779b97f4a7c15);
            let size = match rng.below(12) {
                _ if huge => rng.range(0, 9) as usize,
                0 => 0,
                1 if k.big && rng.chance(1, 8) => rng.range(60000, 70000) as usize,
                _ => rng.range(1, 60) as usize,
            };
            let mut data = if !huge && rng.chance(1, 2) {
                // the documented input format: 4-byte length-prefixed NAL units; lengths include the ones whose
                // prefix looks like a start code (1 -> 00 00 00 01, 256..=511 -> 00 00 01 xx)
                let mut d = Vec::new();
                let units = rng.range(1, 3);
                for u in 0..units {
                    let l = *rng.pick(&[1usize, 2, 5, 20, 255, 256, 300, 511, 512]);
                    d.extend_from_slice(&(l as u32).to_be_bytes());
                    let mut body = rng.bytes(l);
                    if u == 0 {
                        let st = stamp.to_be_bytes();
                        for (i, b) in body.iter_mut().enumerate().take(8) {
                            *b = st[i];
                        }
                    }
                    d.extend(body);
                }
                if size == 0 {
                    d.clear();
                }
                d
            } else {
                let mut d = stamp.to_be_bytes().to_vec();
                d.truncate(size.min(8));
                d.extend(rng.bytes(size.saturating_sub(8)));
                d
            };
            let _ = &mut data;
            ops.push(FragOp::Write { pts, dts: this_dts, data: Hex(data), sync: first || rng.chance(1, 6) });
            first = false;
            since_flush += 1;
            if flush_every > 0 && since_flush >= flush_every {
                ops.push(FragOp::Flush);
                since_flush = 0;
            }
        } else if r < 75 {
            ops.push(FragOp::Flush);
            since_flush = 0;
        } else if r < 83 {
            ops.push(FragOp::Ready);
        } else if r < 91 {
            ops.push(FragOp::DurationMs);
        } else {
            ops.push(FragOp::Init);
        }
    }
    if huge || rng.chance(3, 4) {
        ops.push(FragOp::Flush);
    }
    if rng.chance(1, 3) {
        ops.push(FragOp::Flush);
    }
    FragCase { cfg, ops }
}
