//! Stateless public functions of the library (C12): every one of them is
//! called on the same adversarial inputs; none may panic, overflow or hang.

use crate::case::{Hex, F};
use crate::checks::RunStats;
use crate::exec::guarded;
use crate::frames::{self, FrameShape, Mangle};
use crate::oracle::{normalise, v, Violation};
use crate::rng::{Hasher64, Rng};
use crate::case::{ACodec, VCodec, VCODECS};
use serde::{Deserialize, Serialize};

#[derive(Clone, Debug, Serialize, Deserialize)]
pub struct StatelessCase {
    pub bytes: Hex,
    pub n: u64,
    pub m: u64,
    pub x: F,
    pub text: String,
}

pub fn gen(rng: &mut Rng) -> StatelessCase {
    let codec = *rng.pick(&VCODECS);
    if rng.chance(1, 300) {
        // pathologically long, repetitive input: recursion depth, quadratic scans and allocation size show here
        let unit: &[u8] = *rng.pick(&[&[0u8, 0, 1][..], &[0, 0, 0, 1], &[0], &[0xff], &[0x80], &[0x0a, 0x80], &[0x12, 0x00], &[0, 0, 1, 0x65], &[0xff, 0xf1]]);
        let reps = *rng.pick(&[20_000usize, 100_000, 200_000]);
        let mut d = Vec::with_capacity(unit.len() * reps + 8);
        if rng.bool() {
            d.extend_from_slice(&[0x49, 0x83, 0x42, 0x00]);
        }
        for _ in 0..reps {
            d.extend_from_slice(unit);
        }
        return StatelessCase { bytes: Hex(d), n: rng.next_u64() >> rng.below(64), m: rng.below(1 << 20), x: F(30.0), text: "h264".into() };
    }
    let base: Vec<u8> = match rng.below(10) {
        0 => Vec::new(),
        1 => {
            let n = rng.range(1, 64) as usize;
            rng.bytes(n)
        }
        2 => {
            // start-code heavy alphabet
            let n = rng.range(1, 24) as usize;
            (0..n).map(|_| *rng.pick(&[0u8, 0, 0, 1, 1, 2, 0x65, 0x67, 0x68, 0x40, 0x42, 0x44, 0x26, 0xff])).collect()
        }
        3 => {
            // OBU-ish: header bytes + LEB128 continuation runs
            let n = rng.range(1, 20) as usize;
            (0..n).map(|_| *rng.pick(&[0x0au8, 0x12, 0x32, 0x0e, 0x80, 0xff, 0x7f, 0x00, 0x01, 0x0c])).collect()
        }
        4 => {
            // VP9-ish
            let mut d = vec![0x49, 0x83, 0x42];
            let n = rng.range(0, 12) as usize;
            d.extend((0..n).map(|_| *rng.pick(&[0u8, 0x80, 0xff, 0x7f, 0x0c, 0x10, 0x20, 0xc0, 1])));
            d
        }
        5 => {
            let ac = *rng.pick(&[ACodec::AacLc, ACodec::Opus]);
            let f = frames::build_audio(rng, ac, 1, 20, true);
            if rng.bool() {
                let how = *rng.pick(&[Mangle::Truncate, Mangle::BitFlip]);
                frames::mangle(rng, &f.data, how)
            } else {
                f.data
            }
        }
        _ => {
            let shape = *rng.pick(&[FrameShape::KeyWithConfig, FrameShape::KeyNoConfig, FrameShape::ConfigNoKey, FrameShape::Delta]);
            let stamp = rng.next_u64();
            let f = frames::build_video(rng, codec, shape, stamp, 24, true);
            match rng.below(4) {
                0 => f.data,
                1 => frames::mangle(rng, &f.data, Mangle::Truncate),
                2 => frames::mangle(rng, &f.data, Mangle::BitFlip),
                _ => {
                    let mut d = f.data;
                    let cut = rng.usize(d.len().max(1));
                    d.truncate(cut);
                    let fill = *rng.pick(&[0u8, 0xff, 0x80]);
                    let k = rng.range(0, 12) as usize;
                    d.extend(std::iter::repeat(fill).take(k));
                    d
                }
            }
        }
    };
    let extremes = [0u64, 1, 2, 3, 7, 8, 255, 256, 65535, 65536, 90000, 192000, 192001, u32::MAX as u64, u32::MAX as u64 + 1, u64::MAX - 1, u64::MAX];
    let n = if rng.chance(2, 3) { *rng.pick(&extremes) } else { rng.next_u64() >> rng.below(64) };
    let m = if rng.chance(2, 3) { *rng.pick(&extremes) } else { rng.next_u64() >> rng.below(64) };
    let xs = [0.0, -0.0, 1.0, -1.0, 29.97, 120.0, 120.0000001, 1e300, -1e300, f64::NAN, f64::INFINITY, f64::NEG_INFINITY, f64::MIN_POSITIVE, 5e-324, f64::MAX];
    let x = if rng.chance(3, 4) { *rng.pick(&xs) } else { f64::from_bits(rng.next_u64()) };
    let texts = ["", "h264", "H.264", "avc", "hevc", "h265", "H.265", "av1", "vp9", "aac", "AAC-LC", "aac-main", "aac-ssr", "aac-ltp", "aac-he", "aac-hev2", "opus", "none", "ǅ", "İ", "eng", "日本語", "\u{0}", "xx"];
    let text = if rng.chance(3, 4) {
        texts[rng.usize(texts.len())].to_string()
    } else {
        let n = rng.range(0, 12) as usize;
        String::from_utf8_lossy(&rng.bytes(n)).into_owned()
    };
    StatelessCase { bytes: Hex(base), n, m, x: F(x), text }
}

macro_rules! call {
    ($out:expr, $h:expr, $name:expr, $body:expr) => {
        match guarded(|| $body) {
            Ok(val) => {
                $h.str($name);
                $h.str(&format!("{:?}", val));
            }
            Err((msg, loc)) => {
                $out.push(v("C12", "panic", format!("{}:{}", $name, normalise(&msg)), format!("{} panicked: {} at {}", $name, msg, loc)));
            }
        }
    };
}

/// Long inputs run on a thread with the default 2 MiB stack of spawned threads (a caller's worker thread),
/// so that input-proportional recursion ends the process here and not only in somebody's production.
pub fn eval(c: &StatelessCase, st: &mut RunStats) -> Vec<Violation> {
    if c.bytes.0.len() > 50_000 {
        let c2 = c.clone();
        let h = std::thread::Builder::new().stack_size(2 << 20).spawn(move || {
            let mut st2 = RunStats::default();
            let v = eval_inner(&c2, &mut st2);
            (v, st2.trace_hash, st2.nontrivial)
        });
        match h.map(|h| h.join()) {
            Ok(Ok((v, th, nt))) => {
                st.trace_hash = th;
                st.nontrivial = nt;
                st.evaluations = 60;
                st.count("long_repetitive_inputs_on_2MiB_stack", 1);
                return v;
            }
            _ => panic!("harness: could not run the long-input evaluation thread"),
        }
    }
    eval_inner(c, st)
}

fn eval_inner(c: &StatelessCase, st: &mut RunStats) -> Vec<Violation> {
    use muxide::api::{AacProfile, AudioCodec, Metadata, MuxerConfig, VideoCodec};
    use muxide::codec::{av1, common, h264, h265, opus, vp9};
    use muxide::validation as val;
    let mut out: Vec<Violation> = Vec::new();
    let mut h = Hasher64::new();
    let d = &c.bytes.0[..];
    let n = c.n;
    let m = c.m;
    let x = c.x.0;

    // codec::common
    call!(out, h, "codec::find_start_code", common::find_start_code(d, (n as usize) % (d.len() + 3)));
    call!(out, h, "codec::find_start_code(extreme)", common::find_start_code(d, n as usize));
    call!(out, h, "codec::AnnexBNalIter", common::AnnexBNalIter::new(d).map(|u| u.len()).collect::<Vec<_>>());
    // h264
    call!(out, h, "codec::h264::extract_avc_config", h264::extract_avc_config(d));
    call!(out, h, "codec::h264::annexb_to_avcc", h264::annexb_to_avcc(d).len());
    call!(out, h, "codec::h264::is_h264_keyframe", h264::is_h264_keyframe(d));
    call!(out, h, "codec::h264::AvcConfig", {
        let k = (n as usize) % (d.len() + 1);
        let cfg = h264::AvcConfig::new(d[..k].to_vec(), d[k..].to_vec());
        (cfg.profile_idc(), cfg.profile_compatibility(), cfg.level_idc(), h264::default_avc_config().sps.len())
    });
    // h265
    call!(out, h, "codec::h265::extract_hevc_config", h265::extract_hevc_config(d));
    call!(out, h, "codec::h265::hevc_annexb_to_hvcc", h265::hevc_annexb_to_hvcc(d).len());
    call!(out, h, "codec::h265::is_hevc_keyframe", h265::is_hevc_keyframe(d));
    call!(out, h, "codec::h265::hevc_nal_type", h265::hevc_nal_type(d));
    call!(out, h, "codec::h265::is_hevc_keyframe_nal_type", h265::is_hevc_keyframe_nal_type(n as u8));
    call!(out, h, "codec::h265::HevcConfig", {
        let k = (n as usize) % (d.len() + 1);
        let j = (m as usize) % (k + 1);
        let cfg = h265::HevcConfig::new(d[..j].to_vec(), d[j..k].to_vec(), d[k..].to_vec());
        (cfg.general_profile_space(), cfg.general_tier_flag(), cfg.general_profile_idc(), cfg.general_level_idc())
    });
    // av1
    call!(out, h, "codec::av1::obu helpers", (av1::obu_type(n as u8), av1::obu_has_extension(n as u8), av1::obu_has_size(n as u8)));
    call!(out, h, "codec::av1::read_leb128", av1::read_leb128(d));
    call!(out, h, "codec::av1::parse_obu_header", av1::parse_obu_header(d).map(|i| (i.obu_type, i.has_extension, i.header_size, i.payload_size, i.total_size)));
    call!(out, h, "codec::av1::ObuIter", av1::ObuIter::new(d).map(|(i, b)| (i.obu_type, b.len())).collect::<Vec<_>>());
    call!(out, h, "codec::av1::extract_av1_config", av1::extract_av1_config(d));
    call!(out, h, "codec::av1::is_av1_keyframe", av1::is_av1_keyframe(d));
    // vp9
    call!(out, h, "codec::vp9::is_vp9_keyframe", vp9::is_vp9_keyframe(d).map_err(|e| format!("{} {:?}", e, e)));
    call!(out, h, "codec::vp9::extract_vp9_config", vp9::extract_vp9_config(d));
    call!(out, h, "codec::vp9::is_valid_vp9_frame", vp9::is_valid_vp9_frame(d));
    // opus
    call!(out, h, "codec::opus::opus_frame_duration_from_toc", opus::opus_frame_duration_from_toc(n as u8).map(|f| (f.samples(), f.seconds().to_bits())));
    call!(out, h, "codec::opus::opus_frame_count", opus::opus_frame_count(d));
    call!(out, h, "codec::opus::opus_packet_samples", opus::opus_packet_samples(d));
    call!(out, h, "codec::opus::is_valid_opus_packet", opus::is_valid_opus_packet(d));
    call!(out, h, "codec::opus::OpusConfig", {
        let cfg = opus::OpusConfig::default().with_channels(n as u8).with_pre_skip(m as u16);
        (cfg.channel_mapping_family, opus::OpusConfig::mono().output_channel_count, opus::OpusConfig::stereo().output_channel_count)
    });
    // validation
    let vcodecs = [VideoCodec::H264, VideoCodec::H265, VideoCodec::Av1, VideoCodec::Vp9];
    let acodecs = [AudioCodec::Aac(AacProfile::Lc), AudioCodec::Aac(AacProfile::Hev2), AudioCodec::Opus, AudioCodec::None];
    for vc in vcodecs {
        call!(out, h, "validation::validate_video_config", val::validate_video_config(vc, n as u32, m as u32, x));
        call!(out, h, "validation::validate_video_frame", val::validate_video_frame(vc, d, n & 1 == 1));
    }
    for ac in acodecs {
        call!(out, h, "validation::validate_audio_config", val::validate_audio_config(ac, n as u32, m as u8));
        call!(out, h, "validation::validate_audio_frame", val::validate_audio_frame(ac, d));
    }
    call!(out, h, "validation::validate_muxing_config", {
        let vcfg = val::VideoValidationConfig {
            codec: if n & 2 == 0 { Some(vcodecs[(n % 4) as usize]) } else { None },
            width: if n & 4 == 0 { Some(m as u32) } else { None },
            height: if n & 8 == 0 { Some((m >> 16) as u32) } else { None },
            framerate: if n & 16 == 0 { Some(x) } else { None },
            sample_frame: if n & 32 == 0 { Some((d.to_vec(), n & 64 == 0)) } else { None },
        };
        let acfg = val::AudioValidationConfig {
            codec: if m & 2 == 0 { Some(acodecs[(m % 4) as usize]) } else { None },
            sample_rate: if m & 4 == 0 { Some(n as u32) } else { None },
            channels: if m & 8 == 0 { Some(n as u8) } else { None },
            sample_frame: if m & 16 == 0 { Some(d.to_vec()) } else { None },
        };
        val::validate_muxing_config(vcfg, acfg)
    });
    call!(out, h, "validation::ValidationResult", {
        let r = val::ValidationResult::valid().with_message(c.text.clone()).with_error(c.text.clone());
        (r.is_valid, val::ValidationResult::invalid(vec![c.text.clone()]).errors.len())
    });
    // api value types
    call!(out, h, "api::VideoCodec::from_str", c.text.parse::<VideoCodec>().map(|v| format!("{} {:?}", v, v)));
    call!(out, h, "api::AudioCodec::from_str", c.text.parse::<AudioCodec>().map(|v| format!("{} {:?}", v, v)));
    call!(out, h, "api::Metadata", {
        let md = Metadata::new().with_title(c.text.clone()).with_creation_time(n).with_language(c.text.clone());
        let cur = Metadata::new().with_current_time();
        (md.title.map(|t| t.len()), md.creation_time, cur.creation_time.is_some())
    });
    call!(out, h, "api::MuxerConfig", {
        let cfg = MuxerConfig::new(n as u32, m as u32, x).with_audio(acodecs[(n % 4) as usize], m as u32, n as u16).with_fast_start(n & 1 == 0).with_metadata(Metadata::new());
        (cfg.width, cfg.audio.is_some())
    });
    // invariant log entry points that are documented not to panic
    call!(out, h, "invariant_ppt::log", {
        muxide::invariant_ppt::clear_invariant_log();
        muxide::invariant_ppt::get_logged_invariants().len()
    });
    st.trace_hash = h.finish();
    st.evaluations = 60;
    let mut a = Hasher64::new();
    a.u64(d.len().min(40) as u64);
    a.bytes(&d[..d.len().min(6)]);
    st.nontrivial = Some(a.finish());
    out
}
