//! Stateless public functions (C12): placeholder, filled in below.
use serde::{Deserialize, Serialize};

#[derive(Clone, Debug, Serialize, Deserialize)]
pub struct StatelessCase {}
