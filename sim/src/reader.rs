//! Independent ISO-BMFF reader, written from the box definitions in
//! ISO/IEC 14496-12 (and -14/-15 sample entries), not from the library's
//! builders. Strict: a child box may neither overrun its parent nor leave slack.

use std::fmt;

#[derive(Clone, Debug)]
pub struct BoxNode {
    pub typ: [u8; 4],
    /// absolute offset of the box header in the parsed buffer
    pub start: usize,
    pub size: usize,
    /// header length (8 or 16)
    pub hdr: usize,
    pub children: Vec<BoxNode>,
}

impl BoxNode {
    pub fn name(&self) -> String {
        self.typ.iter().map(|&c| if (0x20..0x7f).contains(&c) { c as char } else { '?' }).collect()
    }
    pub fn is(&self, t: &[u8; 4]) -> bool {
        &self.typ == t
    }
    pub fn payload<'a>(&self, buf: &'a [u8]) -> &'a [u8] {
        &buf[self.start + self.hdr..self.start + self.size]
    }
    pub fn payload_start(&self) -> usize {
        self.start + self.hdr
    }
    pub fn end(&self) -> usize {
        self.start + self.size
    }
    pub fn child(&self, t: &[u8; 4]) -> Option<&BoxNode> {
        self.children.iter().find(|c| c.is(t))
    }
    pub fn children_of(&self, t: &[u8; 4]) -> Vec<&BoxNode> {
        self.children.iter().filter(|c| c.is(t)).collect()
    }
    pub fn count(&self, t: &[u8; 4]) -> usize {
        self.children.iter().filter(|c| c.is(t)).count()
    }
    pub fn child_names(&self) -> Vec<String> {
        self.children.iter().map(|c| c.name()).collect()
    }
}

#[derive(Clone, Debug)]
pub struct ParseErr {
    pub offset: usize,
    pub path: String,
    pub msg: String,
}
impl fmt::Display for ParseErr {
    fn fmt(&self, f: &mut fmt::Formatter<'_>) -> fmt::Result {
        write!(f, "{} at offset {} in {}", self.msg, self.offset, self.path)
    }
}

fn be32(b: &[u8], o: usize) -> u32 {
    u32::from_be_bytes([b[o], b[o + 1], b[o + 2], b[o + 3]])
}
fn be64(b: &[u8], o: usize) -> u64 {
    u64::from_be_bytes([b[o], b[o + 1], b[o + 2], b[o + 3], b[o + 4], b[o + 5], b[o + 6], b[o + 7]])
}
fn be16(b: &[u8], o: usize) -> u16 {
    u16::from_be_bytes([b[o], b[o + 1]])
}

#[derive(Clone, Copy, PartialEq)]
enum Kind {
    Leaf,
    /// plain container: children start right after the header
    Container,
    /// FullBox (4 bytes) then children
    FullContainer,
    /// FullBox + entry_count (8 bytes) then children
    CountedContainer,
    /// VisualSampleEntry: 78 bytes then children
    Visual,
    /// AudioSampleEntry (version 0): 28 bytes then children
    Audio,
    /// ilst item: children (data boxes)
    IlstItem,
}

fn kind_of(typ: &[u8; 4], parent: Option<&[u8; 4]>) -> Kind {
    if let Some(p) = parent {
        if p == b"ilst" {
            return Kind::IlstItem;
        }
        if p == b"stsd" {
            return match typ {
                b"avc1" | b"avc3" | b"hvc1" | b"hev1" | b"av01" | b"vp09" | b"vp08" => Kind::Visual,
                b"mp4a" | b"Opus" | b"opus" => Kind::Audio,
                _ => Kind::Leaf,
            };
        }
    }
    match typ {
        b"moov" | b"trak" | b"edts" | b"mdia" | b"minf" | b"dinf" | b"stbl" | b"udta" | b"mvex" | b"moof" | b"traf"
        | b"ilst" => Kind::Container,
        b"meta" => Kind::FullContainer,
        b"stsd" | b"dref" => Kind::CountedContainer,
        _ => Kind::Leaf,
    }
}

/// Parse the boxes tiling `buf[start..end]` exactly.
fn parse_level(
    buf: &[u8],
    start: usize,
    end: usize,
    parent: Option<&[u8; 4]>,
    path: &str,
    depth: usize,
) -> Result<Vec<BoxNode>, ParseErr> {
    let mut out = Vec::new();
    let mut pos = start;
    let err = |offset: usize, msg: String| ParseErr { offset, path: path.to_string(), msg };
    if depth > 16 {
        return Err(err(start, "nesting too deep".into()));
    }
    while pos < end {
        if end - pos < 8 {
            return Err(err(pos, format!("{} bytes of slack, too short for a box header", end - pos)));
        }
        let size32 = be32(buf, pos) as usize;
        let typ: [u8; 4] = [buf[pos + 4], buf[pos + 5], buf[pos + 6], buf[pos + 7]];
        let (size, hdr) = if size32 == 1 {
            if end - pos < 16 {
                return Err(err(pos, "largesize header does not fit".into()));
            }
            let l = be64(buf, pos + 8);
            if l > usize::MAX as u64 {
                return Err(err(pos, "largesize too large".into()));
            }
            (l as usize, 16)
        } else if size32 == 0 {
            return Err(err(pos, "box size 0 (to end of file) not expected".into()));
        } else {
            (size32, 8)
        };
        if size < hdr {
            return Err(err(pos, format!("box size {} smaller than its header", size)));
        }
        if size > end - pos {
            return Err(err(pos, format!("box '{}' size {} overruns its parent ({} left)", tname(&typ), size, end - pos)));
        }
        let mut node = BoxNode { typ, start: pos, size, hdr, children: Vec::new() };
        let k = kind_of(&typ, parent);
        let skip = match k {
            Kind::Leaf => None,
            Kind::Container | Kind::IlstItem => Some(0),
            Kind::FullContainer => Some(4),
            Kind::CountedContainer => Some(8),
            Kind::Visual => Some(78),
            Kind::Audio => Some(28),
        };
        if let Some(skip) = skip {
            let cstart = pos + hdr + skip;
            let cend = pos + size;
            if cstart > cend {
                return Err(err(pos, format!("box '{}' too short for its fixed part", tname(&typ))));
            }
            let p2 = format!("{}/{}", path, tname(&typ));
            node.children = parse_level(buf, cstart, cend, Some(&typ), &p2, depth + 1)?;
        }
        out.push(node);
        pos += size;
    }
    Ok(out)
}

pub fn tname(t: &[u8; 4]) -> String {
    t.iter().map(|&c| if (0x20..0x7f).contains(&c) { c as char } else { '?' }).collect()
}

pub fn parse_tree(buf: &[u8]) -> Result<Vec<BoxNode>, ParseErr> {
    parse_level(buf, 0, buf.len(), None, "", 0)
}

// ---------------------------------------------------------------- decoded tables

#[derive(Clone, Debug, Default, PartialEq)]
pub struct Sample {
    pub offset: u64,
    pub size: u32,
    pub dts: u64,
    /// composition offset (pts - dts)
    pub cts: i64,
    pub duration: u32,
    pub sync: bool,
}

#[derive(Clone, Debug, Default)]
pub struct Track {
    pub track_id: u32,
    pub handler: [u8; 4],
    pub timescale: u32,
    pub mdhd_version: u8,
    pub mdhd_duration: u64,
    pub language: u16,
    pub stsd_entry_type: [u8; 4],
    pub stsd_entry: Vec<u8>,
    pub stsd_entry_count: u32,
    pub stts: Vec<(u32, u32)>,
    pub ctts: Option<(u8, Vec<(u32, i64)>)>,
    pub stsc: Vec<(u32, u32, u32)>,
    pub stsz_uniform: u32,
    pub stsz_count: u32,
    pub stsz: Vec<u32>,
    pub chunk_offsets: Vec<u64>,
    pub stss: Option<Vec<u32>>,
    /// (segment_duration, media_time, rate) in edit list, if any
    pub elst: Option<Vec<(u64, i64, u32)>>,
    pub samples: Vec<Sample>,
    pub tkhd_payload_len: usize,
    /// the last eight bytes of the tkhd payload: presentation width and height as unsigned 16.16 (the fields close
    /// the box in version 0 and version 1 alike, also in the 88-byte variant the pinned tree writes)
    pub tkhd_tail: Option<(u32, u32)>,
    pub tkhd_flags: u32,
    /// sample-entry fields
    pub width: Option<u16>,
    pub height: Option<u16>,
    pub channels: Option<u16>,
    pub sample_rate_16_16: Option<u32>,
}

#[derive(Clone, Debug, Default)]
pub struct Movie {
    pub top: Vec<String>,
    pub mvhd_timescale: u32,
    pub mvhd_duration: u64,
    pub mvhd_version: u8,
    pub next_track_id: u32,
    pub tracks: Vec<Track>,
    /// absolute [start, end) of the mdat payload, if an mdat exists
    pub mdat_payload: Option<(u64, u64)>,
    pub udta: Option<Vec<u8>>,
    pub has_mvex: bool,
    pub trex_track_ids: Vec<u32>,
    /// per trex: (track id, default sample duration, size, flags)
    pub trex_defaults: Vec<(u32, u32, u32, u32)>,
    /// mvex/mehd fragment_duration (movie timescale), if the box is there
    pub mehd_duration: Option<u64>,
}

/// Structural problems found while decoding (C02 material).
pub type Problems = Vec<String>;

fn full(p: &[u8]) -> Option<(u8, u32)> {
    if p.len() < 4 {
        return None;
    }
    Some((p[0], be32(p, 0) & 0x00ff_ffff))
}

pub fn decode_track(buf: &[u8], trak: &BoxNode, probs: &mut Problems) -> Track {
    let mut t = Track::default();
    let need = |b: Option<&BoxNode>, name: &str, probs: &mut Problems| -> bool {
        if b.is_none() {
            probs.push(format!("trak: missing {}", name));
            false
        } else {
            true
        }
    };
    for n in ["tkhd", "mdia"] {
        let c = trak.count(&n.as_bytes().try_into().unwrap());
        if c != 1 {
            probs.push(format!("trak: {} occurs {} times", n, c));
        }
    }
    if let Some(tkhd) = trak.child(b"tkhd") {
        let p = tkhd.payload(buf);
        t.tkhd_payload_len = p.len();
        if p.len() >= 8 {
            t.tkhd_tail = Some((be32(p, p.len() - 8), be32(p, p.len() - 4)));
        }
        if let Some((v, fl)) = full(p) {
            t.tkhd_flags = fl;
            let id_off = if v == 1 { 20 } else { 12 };
            if p.len() >= id_off + 4 {
                t.track_id = be32(p, id_off);
            } else {
                probs.push("tkhd too short for track id".into());
            }
        } else {
            probs.push("tkhd too short".into());
        }
    }
    if let Some(edts) = trak.child(b"edts") {
        if let Some(elst) = edts.child(b"elst") {
            let p = elst.payload(buf);
            if let Some((v, _)) = full(p) {
                if p.len() >= 8 {
                    let n = be32(p, 4) as usize;
                    let es = if v == 1 { 20 } else { 12 };
                    if p.len() == 8 + n * es {
                        let mut v_ = Vec::new();
                        for i in 0..n {
                            let o = 8 + i * es;
                            if v == 1 {
                                v_.push((be64(p, o), be64(p, o + 8) as i64, be32(p, o + 16)));
                            } else {
                                v_.push((be32(p, o) as u64, be32(p, o + 4) as i32 as i64, be32(p, o + 8)));
                            }
                        }
                        t.elst = Some(v_);
                    } else {
                        probs.push("elst size does not match entry count".into());
                    }
                }
            }
        }
    }
    let mdia = match trak.child(b"mdia") {
        Some(m) => m,
        None => return t,
    };
    for n in ["mdhd", "hdlr", "minf"] {
        let c = mdia.count(&n.as_bytes().try_into().unwrap());
        if c != 1 {
            probs.push(format!("mdia: {} occurs {} times", n, c));
        }
    }
    if let Some(mdhd) = mdia.child(b"mdhd") {
        let p = mdhd.payload(buf);
        match full(p) {
            Some((0, _)) if p.len() == 24 => {
                t.mdhd_version = 0;
                t.timescale = be32(p, 12);
                t.mdhd_duration = be32(p, 16) as u64;
                t.language = be16(p, 20);
            }
            Some((1, _)) if p.len() == 36 => {
                t.mdhd_version = 1;
                t.timescale = be32(p, 20);
                t.mdhd_duration = be64(p, 24);
                t.language = be16(p, 32);
            }
            _ => probs.push(format!("mdhd: unexpected version/size (payload {} bytes)", p.len())),
        }
    }
    if let Some(hdlr) = mdia.child(b"hdlr") {
        let p = hdlr.payload(buf);
        if p.len() >= 12 {
            t.handler = [p[8], p[9], p[10], p[11]];
        } else {
            probs.push("hdlr too short".into());
        }
    }
    let minf = match mdia.child(b"minf") {
        Some(m) => m,
        None => return t,
    };
    let media_hdr = match &t.handler {
        b"vide" => "vmhd",
        b"soun" => "smhd",
        _ => "nmhd",
    };
    if minf.count(&media_hdr.as_bytes().try_into().unwrap()) != 1 {
        probs.push(format!("minf: expected exactly one {} for handler '{}'", media_hdr, tname(&t.handler)));
    }
    match minf.child(b"dinf") {
        Some(dinf) => match dinf.child(b"dref") {
            Some(dref) => {
                let p = dref.payload(buf);
                let n = if p.len() >= 8 { be32(p, 4) as usize } else { usize::MAX };
                if n != dref.children.len() {
                    probs.push(format!("dref: entry_count {} but {} entries", n, dref.children.len()));
                }
                if dref.children.is_empty() {
                    probs.push("dref: no data entry".into());
                }
                for c in &dref.children {
                    if !(c.is(b"url ") || c.is(b"urn ")) {
                        probs.push(format!("dref: unexpected entry '{}'", c.name()));
                    }
                }
            }
            None => probs.push("dinf: missing dref".into()),
        },
        None => probs.push("minf: missing dinf".into()),
    }
    let stbl = match minf.child(b"stbl") {
        Some(s) => s,
        None => {
            probs.push("minf: missing stbl".into());
            return t;
        }
    };
    for n in ["stsd", "stts", "stsc"] {
        let c = stbl.count(&n.as_bytes().try_into().unwrap());
        if c != 1 {
            probs.push(format!("stbl: {} occurs {} times", n, c));
        }
    }
    if stbl.count(b"stsz") + stbl.count(b"stz2") != 1 {
        probs.push("stbl: need exactly one of stsz/stz2".into());
    }
    if stbl.count(b"stco") + stbl.count(b"co64") != 1 {
        probs.push("stbl: need exactly one of stco/co64".into());
    }
    for n in ["ctts", "stss"] {
        if stbl.count(&n.as_bytes().try_into().unwrap()) > 1 {
            probs.push(format!("stbl: {} occurs more than once", n));
        }
    }
    // stsd
    if let Some(stsd) = stbl.child(b"stsd") {
        let p = stsd.payload(buf);
        if p.len() >= 8 {
            t.stsd_entry_count = be32(p, 4);
            if t.stsd_entry_count as usize != stsd.children.len() {
                probs.push(format!("stsd: entry_count {} but {} entries", t.stsd_entry_count, stsd.children.len()));
            }
            if let Some(e) = stsd.children.first() {
                t.stsd_entry_type = e.typ;
                t.stsd_entry = buf[e.start..e.end()].to_vec();
                let ep = e.payload(buf);
                match kind_of(&e.typ, Some(b"stsd")) {
                    Kind::Visual => {
                        t.width = Some(be16(ep, 24));
                        t.height = Some(be16(ep, 26));
                        if &t.handler != b"vide" {
                            probs.push("visual sample entry in non-video track".into());
                        }
                    }
                    Kind::Audio => {
                        t.channels = Some(be16(ep, 16));
                        t.sample_rate_16_16 = Some(be32(ep, 24));
                        if &t.handler != b"soun" {
                            probs.push("audio sample entry in non-audio track".into());
                        }
                    }
                    _ => probs.push(format!("stsd: unknown sample entry '{}'", e.name())),
                }
            }
        } else {
            probs.push("stsd too short".into());
        }
    }
    // stts
    if let Some(b) = stbl.child(b"stts") {
        let p = b.payload(buf);
        if p.len() >= 8 && p.len() == 8 + be32(p, 4) as usize * 8 {
            for i in 0..be32(p, 4) as usize {
                t.stts.push((be32(p, 8 + i * 8), be32(p, 12 + i * 8)));
            }
        } else {
            probs.push("stts: size does not match entry count".into());
        }
    }
    if let Some(b) = stbl.child(b"ctts") {
        let p = b.payload(buf);
        if p.len() >= 8 && p.len() == 8 + be32(p, 4) as usize * 8 {
            let v = p[0];
            let mut e = Vec::new();
            for i in 0..be32(p, 4) as usize {
                let raw = be32(p, 12 + i * 8);
                let off = if v == 0 { raw as i64 } else { raw as i32 as i64 };
                e.push((be32(p, 8 + i * 8), off));
            }
            if v > 1 {
                probs.push(format!("ctts: version {}", v));
            }
            t.ctts = Some((v, e));
        } else {
            probs.push("ctts: size does not match entry count".into());
        }
    }
    if let Some(b) = stbl.child(b"stsc") {
        let p = b.payload(buf);
        if p.len() >= 8 && p.len() == 8 + be32(p, 4) as usize * 12 {
            for i in 0..be32(p, 4) as usize {
                t.stsc.push((be32(p, 8 + i * 12), be32(p, 12 + i * 12), be32(p, 16 + i * 12)));
            }
        } else {
            probs.push("stsc: size does not match entry count".into());
        }
    }
    if let Some(b) = stbl.child(b"stsz") {
        let p = b.payload(buf);
        if p.len() >= 12 {
            t.stsz_uniform = be32(p, 4);
            t.stsz_count = be32(p, 8);
            if t.stsz_uniform == 0 {
                if p.len() == 12 + t.stsz_count as usize * 4 {
                    for i in 0..t.stsz_count as usize {
                        t.stsz.push(be32(p, 12 + i * 4));
                    }
                } else {
                    probs.push("stsz: size does not match sample count".into());
                }
            } else if p.len() != 12 {
                probs.push("stsz: uniform size with a table".into());
            } else {
                t.stsz = vec![t.stsz_uniform; t.stsz_count as usize];
            }
        } else {
            probs.push("stsz too short".into());
        }
    }
    if let Some(b) = stbl.child(b"stco") {
        let p = b.payload(buf);
        if p.len() >= 8 && p.len() == 8 + be32(p, 4) as usize * 4 {
            for i in 0..be32(p, 4) as usize {
                t.chunk_offsets.push(be32(p, 8 + i * 4) as u64);
            }
        } else {
            probs.push("stco: size does not match entry count".into());
        }
    } else if let Some(b) = stbl.child(b"co64") {
        let p = b.payload(buf);
        if p.len() >= 8 && p.len() == 8 + be32(p, 4) as usize * 8 {
            for i in 0..be32(p, 4) as usize {
                t.chunk_offsets.push(be64(p, 8 + i * 8));
            }
        } else {
            probs.push("co64: size does not match entry count".into());
        }
    }
    if let Some(b) = stbl.child(b"stss") {
        let p = b.payload(buf);
        if p.len() >= 8 && p.len() == 8 + be32(p, 4) as usize * 4 {
            let mut v = Vec::new();
            for i in 0..be32(p, 4) as usize {
                v.push(be32(p, 8 + i * 4));
            }
            t.stss = Some(v);
        } else {
            probs.push("stss: size does not match entry count".into());
        }
    }

    // ---- consistency and resolution
    let n = t.stsz.len();
    let stts_total: u64 = t.stts.iter().map(|e| e.0 as u64).sum();
    if stts_total != n as u64 {
        probs.push(format!("stts describes {} samples, stsz {}", stts_total, n));
    }
    if let Some((_, c)) = &t.ctts {
        let ct: u64 = c.iter().map(|e| e.0 as u64).sum();
        if ct != n as u64 {
            probs.push(format!("ctts describes {} samples, stsz {}", ct, n));
        }
    }
    if let Some(ss) = &t.stss {
        let mut prev = 0u32;
        for &s in ss {
            if s == 0 || s as usize > n || s <= prev {
                probs.push(format!("stss entry {} out of order or out of range 1..={}", s, n));
                break;
            }
            prev = s;
        }
    }
    // stsc -> per chunk sample counts
    let chunks = t.chunk_offsets.len();
    let mut per_chunk: Vec<u32> = Vec::with_capacity(chunks);
    let mut stsc_ok = true;
    {
        let mut prev_first = 0u32;
        for (i, e) in t.stsc.iter().enumerate() {
            if e.0 == 0 || e.0 <= prev_first && i > 0 || (i == 0 && e.0 != 1) {
                probs.push(format!("stsc: first_chunk sequence invalid at entry {}", i));
                stsc_ok = false;
            }
            if e.2 != 1 {
                probs.push(format!("stsc: sample_description_index {} (only one description exists)", e.2));
            }
            prev_first = e.0;
        }
    }
    if stsc_ok {
        for c in 1..=chunks as u32 {
            let mut spc = None;
            for e in &t.stsc {
                if e.0 <= c {
                    spc = Some(e.1);
                }
            }
            match spc {
                Some(s) => per_chunk.push(s),
                None => {
                    probs.push(format!("stsc: chunk {} has no entry", c));
                    stsc_ok = false;
                    break;
                }
            }
        }
        if let Some(last) = t.stsc.last() {
            if last.0 as usize > chunks {
                probs.push(format!("stsc: first_chunk {} beyond chunk count {}", last.0, chunks));
            }
        }
    }
    let implied: u64 = per_chunk.iter().map(|&x| x as u64).sum();
    if stsc_ok && implied != n as u64 {
        probs.push(format!("stsc x stco imply {} samples, stsz {}", implied, n));
        stsc_ok = false;
    }
    // expand
    let mut durs: Vec<u32> = Vec::with_capacity(n);
    for (c, d) in &t.stts {
        for _ in 0..*c {
            if durs.len() < n {
                durs.push(*d);
            }
        }
    }
    while durs.len() < n {
        durs.push(0);
    }
    let mut cts: Vec<i64> = Vec::with_capacity(n);
    if let Some((_, e)) = &t.ctts {
        for (c, o) in e {
            for _ in 0..*c {
                if cts.len() < n {
                    cts.push(*o);
                }
            }
        }
    }
    while cts.len() < n {
        cts.push(0);
    }
    let mut dts = 0u64;
    let mut si = 0usize;
    if stsc_ok {
        for (ci, &cnt) in per_chunk.iter().enumerate() {
            let mut off = t.chunk_offsets[ci];
            for _ in 0..cnt {
                let sync = match &t.stss {
                    None => true,
                    Some(v) => v.binary_search(&(si as u32 + 1)).is_ok(),
                };
                t.samples.push(Sample { offset: off, size: t.stsz[si], dts, cts: cts[si], duration: durs[si], sync });
                off += t.stsz[si] as u64;
                dts += durs[si] as u64;
                si += 1;
            }
        }
    }
    t
}

pub fn decode_movie(buf: &[u8], tree: &[BoxNode], probs: &mut Problems) -> Movie {
    let mut m = Movie::default();
    m.top = tree.iter().map(|b| b.name()).collect();
    for b in tree {
        if b.is(b"mdat") {
            m.mdat_payload = Some((b.payload_start() as u64, b.end() as u64));
        }
    }
    let moov = match tree.iter().find(|b| b.is(b"moov")) {
        Some(m) => m,
        None => {
            probs.push("no moov".into());
            return m;
        }
    };
    if moov.count(b"mvhd") != 1 {
        probs.push(format!("moov: mvhd occurs {} times", moov.count(b"mvhd")));
    }
    if let Some(mvhd) = moov.child(b"mvhd") {
        let p = mvhd.payload(buf);
        match full(p) {
            Some((0, _)) if p.len() == 100 => {
                m.mvhd_version = 0;
                m.mvhd_timescale = be32(p, 12);
                m.mvhd_duration = be32(p, 16) as u64;
                m.next_track_id = be32(p, 96);
            }
            Some((1, _)) if p.len() == 112 => {
                m.mvhd_version = 1;
                m.mvhd_timescale = be32(p, 20);
                m.mvhd_duration = be64(p, 24);
                m.next_track_id = be32(p, 108);
            }
            _ => probs.push(format!("mvhd: unexpected version/size (payload {} bytes)", p.len())),
        }
    }
    for trak in moov.children_of(b"trak") {
        m.tracks.push(decode_track(buf, trak, probs));
    }
    if let Some(u) = moov.child(b"udta") {
        m.udta = Some(buf[u.start..u.end()].to_vec());
    }
    if let Some(mvex) = moov.child(b"mvex") {
        m.has_mvex = true;
        if let Some(mehd) = mvex.child(b"mehd") {
            let p = mehd.payload(buf);
            match full(p) {
                Some((0, _)) if p.len() == 8 => m.mehd_duration = Some(be32(p, 4) as u64),
                Some((1, _)) if p.len() == 12 => m.mehd_duration = Some(be64(p, 4)),
                _ => probs.push(format!("mehd: unexpected version/size (payload {} bytes)", p.len())),
            }
        }
        for trex in mvex.children_of(b"trex") {
            let p = trex.payload(buf);
            if p.len() == 24 {
                m.trex_track_ids.push(be32(p, 4));
                m.trex_defaults.push((be32(p, 4), be32(p, 12), be32(p, 16), be32(p, 20)));
            } else {
                probs.push(format!("trex: payload {} bytes, expected 24", p.len()));
            }
        }
    }
    for c in &moov.children {
        // free space and extension boxes are legal anywhere; the statement lists what must be there, not what may
        if !matches!(&c.typ, b"mvhd" | b"trak" | b"udta" | b"mvex" | b"iods" | b"meta" | b"free" | b"skip" | b"uuid") {
            probs.push(format!("moov: unexpected child '{}'", c.name()));
        }
    }
    m
}

// ---------------------------------------------------------------- fragments

#[derive(Clone, Debug, Default, PartialEq)]
pub struct FragSample {
    pub duration: Option<u32>,
    pub size: Option<u32>,
    pub flags: Option<u32>,
    pub cts: Option<i64>,
}

#[derive(Clone, Debug, Default)]
pub struct Fragment {
    pub sequence: u32,
    pub track_id: u32,
    pub tfhd_flags: u32,
    pub base_data_offset: Option<u64>,
    pub tfdt_version: u8,
    pub base_decode_time: u64,
    pub trun_version: u8,
    pub trun_flags: u32,
    pub data_offset: Option<i32>,
    pub first_sample_flags: Option<u32>,
    /// tfhd default sample duration / size / flags, where present
    pub tfhd_default_duration: Option<u32>,
    pub tfhd_default_size: Option<u32>,
    pub tfhd_default_flags: Option<u32>,
    pub samples: Vec<FragSample>,
    pub moof_start: usize,
    pub moof_size: usize,
    pub mdat_start: usize,
    pub mdat_size: usize,
}

/// A media segment must be exactly moof{mfhd, traf{tfhd, tfdt, trun}} followed by one mdat.
pub fn decode_fragment(buf: &[u8], tree: &[BoxNode], probs: &mut Problems) -> Option<Fragment> {
    let names: Vec<String> = tree.iter().map(|b| b.name()).collect();
    if names != ["moof", "mdat"] {
        probs.push(format!("media segment top level is {:?}, expected [moof, mdat]", names));
        if tree.len() < 2 || !tree[0].is(b"moof") {
            return None;
        }
    }
    let moof = &tree[0];
    let mdat = tree.iter().find(|b| b.is(b"mdat"))?;
    let mut f = Fragment { moof_start: moof.start, moof_size: moof.size, mdat_start: mdat.start, mdat_size: mdat.size, ..Default::default() };
    if moof.child_names() != ["mfhd", "traf"] {
        probs.push(format!("moof children are {:?}, expected [mfhd, traf]", moof.child_names()));
    }
    if let Some(mfhd) = moof.child(b"mfhd") {
        let p = mfhd.payload(buf);
        if p.len() == 8 {
            f.sequence = be32(p, 4);
        } else {
            probs.push(format!("mfhd payload {} bytes, expected 8", p.len()));
        }
    }
    let traf = moof.child(b"traf")?;
    let tn = traf.child_names();
    if tn != ["tfhd", "tfdt", "trun"] {
        probs.push(format!("traf children are {:?}, expected [tfhd, tfdt, trun]", tn));
    }
    if let Some(tfhd) = traf.child(b"tfhd") {
        let p = tfhd.payload(buf);
        if let Some((_, fl)) = full(p) {
            f.tfhd_flags = fl;
            let mut need = 8;
            for (bit, sz) in [(0x1u32, 8usize), (0x2, 4), (0x8, 4), (0x10, 4), (0x20, 4)] {
                if fl & bit != 0 {
                    need += sz;
                }
            }
            if p.len() != need {
                probs.push(format!("tfhd payload {} bytes, flags {:#x} imply {}", p.len(), fl, need));
            } else {
                f.track_id = be32(p, 4);
                let mut o = 8;
                if fl & 1 != 0 {
                    f.base_data_offset = Some(be64(p, o));
                    o += 8;
                }
                if fl & 2 != 0 {
                    o += 4; // sample description index
                }
                if fl & 8 != 0 {
                    f.tfhd_default_duration = Some(be32(p, o));
                    o += 4;
                }
                if fl & 0x10 != 0 {
                    f.tfhd_default_size = Some(be32(p, o));
                    o += 4;
                }
                if fl & 0x20 != 0 {
                    f.tfhd_default_flags = Some(be32(p, o));
                }
            }
        } else {
            probs.push("tfhd too short".into());
        }
    }
    if let Some(tfdt) = traf.child(b"tfdt") {
        let p = tfdt.payload(buf);
        match full(p) {
            Some((0, _)) if p.len() == 8 => {
                f.tfdt_version = 0;
                f.base_decode_time = be32(p, 4) as u64;
            }
            Some((1, _)) if p.len() == 12 => {
                f.tfdt_version = 1;
                f.base_decode_time = be64(p, 4);
            }
            _ => probs.push(format!("tfdt: unexpected version/size (payload {} bytes)", p.len())),
        }
    }
    if let Some(trun) = traf.child(b"trun") {
        let p = trun.payload(buf);
        if let Some((v, fl)) = full(p) {
            f.trun_version = v;
            f.trun_flags = fl;
            if p.len() < 8 {
                probs.push("trun too short".into());
                return Some(f);
            }
            let n = be32(p, 4) as usize;
            let mut o = 8;
            let per = [0x100u32, 0x200, 0x400, 0x800].iter().filter(|&&b| fl & b != 0).count() * 4;
            let need = 8 + if fl & 1 != 0 { 4 } else { 0 } + if fl & 4 != 0 { 4 } else { 0 } + n * per;
            if p.len() != need {
                probs.push(format!("trun payload {} bytes, flags {:#x} and count {} imply {}", p.len(), fl, n, need));
                return Some(f);
            }
            if fl & 1 != 0 {
                f.data_offset = Some(be32(p, o) as i32);
                o += 4;
            }
            if fl & 4 != 0 {
                f.first_sample_flags = Some(be32(p, o));
                o += 4;
            }
            for _ in 0..n {
                let mut s = FragSample::default();
                if fl & 0x100 != 0 {
                    s.duration = Some(be32(p, o));
                    o += 4;
                }
                if fl & 0x200 != 0 {
                    s.size = Some(be32(p, o));
                    o += 4;
                }
                if fl & 0x400 != 0 {
                    s.flags = Some(be32(p, o));
                    o += 4;
                }
                if fl & 0x800 != 0 {
                    let raw = be32(p, o);
                    s.cts = Some(if v == 0 { raw as i64 } else { raw as i32 as i64 });
                    o += 4;
                }
                f.samples.push(s);
            }
        } else {
            probs.push("trun too short".into());
        }
    }
    f.resolve(None);
    Some(f)
}

impl Fragment {
    /// Fills in what the run does not state per sample, in the order ISO/IEC 14496-12 §8.8.8 gives:
    /// per-sample value, the run's first-sample flags (sample 0 only), the tfhd default, the trex
    /// default (duration, size, flags) of the init segment when the caller has it.
    pub fn resolve(&mut self, trex: Option<(u32, u32, u32)>) {
        let first = self.first_sample_flags;
        let (dd, ds, df) = (self.tfhd_default_duration, self.tfhd_default_size, self.tfhd_default_flags);
        for (k, s) in self.samples.iter_mut().enumerate() {
            if s.duration.is_none() {
                s.duration = dd.or(trex.map(|t| t.0));
            }
            if s.size.is_none() {
                s.size = ds.or(trex.map(|t| t.1));
            }
            if s.flags.is_none() {
                s.flags = if k == 0 && first.is_some() { first } else { df.or(trex.map(|t| t.2)) };
            }
            if s.cts.is_none() {
                s.cts = Some(0);
            }
        }
    }

    pub fn unresolved(&self) -> bool {
        self.samples.iter().any(|s| s.duration.is_none() || s.size.is_none() || s.flags.is_none())
    }
}

// ---------------------------------------------------------------- structural checks (C02)

/// Mandatory hierarchy of one progressive / init `moov`, given how many tracks are expected.
pub fn check_moov_structure(buf: &[u8], tree: &[BoxNode], expect_tracks: usize, init_segment: bool, probs: &mut Problems) {
    if tree.is_empty() || !tree[0].is(b"ftyp") {
        probs.push(format!("first box is '{}', expected ftyp", tree.first().map(|b| b.name()).unwrap_or_default()));
    }
    let nm = tree.iter().filter(|b| b.is(b"moov")).count();
    if nm != 1 {
        probs.push(format!("{} moov boxes", nm));
    }
    let nd = tree.iter().filter(|b| b.is(b"mdat")).count();
    if init_segment {
        if nd != 0 {
            probs.push("init segment contains mdat".into());
        }
    } else if nd > 1 {
        probs.push(format!("{} mdat boxes", nd));
    }
    for b in tree {
        if !matches!(&b.typ, b"ftyp" | b"moov" | b"mdat" | b"free" | b"skip" | b"uuid" | b"wide") {
            probs.push(format!("unexpected top-level box '{}'", b.name()));
        }
    }
    if tree.iter().filter(|b| b.is(b"ftyp")).count() != 1 {
        probs.push("ftyp must occur exactly once".into());
    }
    if let Some(ftyp) = tree.iter().find(|b| b.is(b"ftyp")) {
        let p = ftyp.payload(buf);
        if p.len() < 8 || p.len() % 4 != 0 {
            probs.push(format!("ftyp payload of {} bytes", p.len()));
        }
    }
    if let Some(moov) = tree.iter().find(|b| b.is(b"moov")) {
        let nt = moov.count(b"trak");
        if nt != expect_tracks {
            probs.push(format!("{} trak boxes, {} streams configured", nt, expect_tracks));
        }
        if init_segment {
            match moov.child(b"mvex") {
                None => probs.push("init segment without mvex".into()),
                Some(x) => {
                    if x.count(b"trex") == 0 {
                        probs.push("mvex without trex".into());
                    }
                }
            }
        }
    }
}

#[cfg(test)]
mod tests {
    use super::*;

    fn bx(t: &[u8; 4], p: &[u8]) -> Vec<u8> {
        let mut v = ((p.len() + 8) as u32).to_be_bytes().to_vec();
        v.extend_from_slice(t);
        v.extend_from_slice(p);
        v
    }

    #[test]
    fn strict_tiling() {
        let inner = bx(b"mvhd", &[0u8; 100]);
        let moov = bx(b"moov", &inner);
        assert!(parse_tree(&moov).is_ok());
        // slack inside the container
        let mut p = inner.clone();
        p.extend_from_slice(&[0, 0, 0]);
        let moov = bx(b"moov", &p);
        assert!(parse_tree(&moov).is_err());
        // child overruns parent
        let mut bad = inner.clone();
        bad[3] += 4;
        let moov = bx(b"moov", &bad);
        assert!(parse_tree(&moov).is_err());
        // trailing slack at top level
        let mut f = bx(b"ftyp", b"isom\0\0\0\0");
        f.extend_from_slice(&[1, 2, 3, 4]);
        assert!(parse_tree(&f).is_err());
        // size below header
        let mut f = bx(b"ftyp", b"isom\0\0\0\0");
        f[3] = 4;
        assert!(parse_tree(&f).is_err());
    }

    #[test]
    fn fixture_parses() {
        let buf = std::fs::read("/repo/fixtures/minimal.mp4").unwrap();
        let tree = parse_tree(&buf).expect("fixture must tile");
        let mut probs = Vec::new();
        let m = decode_movie(&buf, &tree, &mut probs);
        assert_eq!(m.tracks.len(), 1);
        assert_eq!(m.mvhd_timescale, 1000);
        assert_eq!(m.tracks[0].timescale, 90000);
    }

    #[test]
    fn sample_resolution_multi_chunk() {
        // hand-assembled stbl: 5 samples, chunks of 2,2,1 via stsc [(1,2),(3,1)]
        let stsd = {
            let mut e = vec![0u8; 78];
            e[24] = 0x01; // width 256
            let avc1 = bx(b"avc1", &e);
            let mut p = vec![0, 0, 0, 0, 0, 0, 0, 1];
            p.extend(avc1);
            bx(b"stsd", &p)
        };
        let stts = bx(b"stts", &[0, 0, 0, 0, 0, 0, 0, 2, 0, 0, 0, 3, 0, 0, 0, 10, 0, 0, 0, 2, 0, 0, 0, 20]);
        let stsc = bx(b"stsc", &[0, 0, 0, 0, 0, 0, 0, 2, 0, 0, 0, 1, 0, 0, 0, 2, 0, 0, 0, 1, 0, 0, 0, 3, 0, 0, 0, 1, 0, 0, 0, 1]);
        let mut sz = vec![0, 0, 0, 0, 0, 0, 0, 0, 0, 0, 0, 5];
        for s in [4u32, 5, 6, 7, 8] {
            sz.extend(s.to_be_bytes());
        }
        let stsz = bx(b"stsz", &sz);
        let mut co = vec![0, 0, 0, 0, 0, 0, 0, 3];
        for o in [100u32, 200, 300] {
            co.extend(o.to_be_bytes());
        }
        let stco = bx(b"stco", &co);
        let stss = bx(b"stss", &[0, 0, 0, 0, 0, 0, 0, 2, 0, 0, 0, 1, 0, 0, 0, 4]);
        let stbl = bx(b"stbl", &[stsd, stts, stsc, stsz, stco, stss].concat());
        let url = bx(b"url ", &[0, 0, 0, 1]);
        let mut d = vec![0, 0, 0, 0, 0, 0, 0, 1];
        d.extend(url);
        let dinf = bx(b"dinf", &bx(b"dref", &d));
        let vmhd = bx(b"vmhd", &[0, 0, 0, 1, 0, 0, 0, 0, 0, 0, 0, 0]);
        let minf = bx(b"minf", &[vmhd, dinf, stbl].concat());
        let mut mdhd = vec![0u8; 24];
        mdhd[12..16].copy_from_slice(&90000u32.to_be_bytes());
        mdhd[16..20].copy_from_slice(&70u32.to_be_bytes());
        let mut hdlr = vec![0u8; 25];
        hdlr[8..12].copy_from_slice(b"vide");
        let mdia = bx(b"mdia", &[bx(b"mdhd", &mdhd), bx(b"hdlr", &hdlr), minf].concat());
        let mut tkhd = vec![0u8; 84];
        tkhd[12..16].copy_from_slice(&1u32.to_be_bytes());
        let trak = bx(b"trak", &[bx(b"tkhd", &tkhd), mdia].concat());
        let tree = parse_tree(&trak).unwrap();
        let mut probs = Vec::new();
        let t = decode_track(&trak, &tree[0], &mut probs);
        assert!(probs.is_empty(), "{:?}", probs);
        let offs: Vec<u64> = t.samples.iter().map(|s| s.offset).collect();
        assert_eq!(offs, vec![100, 104, 200, 206, 300]);
        let dts: Vec<u64> = t.samples.iter().map(|s| s.dts).collect();
        assert_eq!(dts, vec![0, 10, 20, 30, 50]);
        let sync: Vec<bool> = t.samples.iter().map(|s| s.sync).collect();
        assert_eq!(sync, vec![true, false, false, true, false]);
        assert_eq!(t.width, Some(256));
    }
}
