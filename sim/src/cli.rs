//! S-CLI (C20): the real `muxide` binary (rebuilt from /repo) as a child
//! process in a generated directory; the in-process library run is the
//! reference. Disk faults come from real kernel objects.

use crate::case::*;
use crate::checks::RunStats;
use crate::exec;
use crate::frames::{self, FrameShape, Mangle};
use crate::oracle::{normalise, v, Violation};
use crate::rng::{Hasher64, Rng};
use serde::{Deserialize, Serialize};
use std::io::Read;
use std::os::unix::ffi::OsStringExt;
use std::path::{Path, PathBuf};
use std::process::{Command, Stdio};

pub const BIN: &str = "/verif/sim/target/repo-bin/release/muxide";
pub const SHIM: &str = "/verif/sim/target/shim.so";
pub const SHIM_KINDS: [&str; 7] = ["eio_write", "enospc_write", "eintr_write", "short_write", "eio_read", "eintr_read", "short_read"];

#[derive(Clone, Debug, Serialize, Deserialize, PartialEq)]
pub enum Input {
    /// valid hex text of these bytes; style: 0 plain lower, 1 upper, 2 whitespace/newlines, 3 trailing newline
    Hex { data: crate::case::Hex, style: u8 },
    /// hex of these bytes plus one extra digit (odd number of digits); empty data = a short literal
    OddLength(#[serde(default)] crate::case::Hex),
    /// hex of these bytes with one non-hex character spliced in; empty data = a short literal
    NonHex(#[serde(default)] crate::case::Hex),
    Empty,
    WhitespaceOnly,
    NonUtf8,
    Directory,
    Missing,
    DanglingSymlink,
    SymlinkLoop,
}

impl Input {
    fn readable_hex(&self) -> Option<&[u8]> {
        match self {
            Input::Hex { data, .. } => Some(&data.0),
            _ => None,
        }
    }
    fn name(&self) -> &'static str {
        match self {
            Input::Hex { .. } => "hex",
            Input::OddLength(_) => "odd-length",
            Input::NonHex(_) => "non-hex",
            Input::Empty => "empty",
            Input::WhitespaceOnly => "whitespace-only",
            Input::NonUtf8 => "non-utf8",
            Input::Directory => "directory",
            Input::Missing => "missing",
            Input::DanglingSymlink => "dangling-symlink",
            Input::SymlinkLoop => "symlink-loop",
        }
    }
}

#[derive(Clone, Copy, Debug, Serialize, Deserialize, PartialEq)]
pub enum Output {
    Fresh,
    Existing,
    Directory,
    MissingParent,
    DevFull,
}

#[derive(Clone, Debug, Serialize, Deserialize, PartialEq)]
pub enum InfoFile {
    /// a file produced by the library in-process (progressive) from this case
    Library(Box<ProgCase>),
    /// init segment + media segments of a fragmented history
    Fragmented(Box<FragCase>),
    Truncated(Box<ProgCase>, u32),
    Corrupted(Box<ProgCase>, u32, u8),
    Random(crate::case::Hex),
    Missing,
    Directory,
    /// a library-written file laid out so that a top-level box header starts `back` bytes (1..=7) before a
    /// multiple of a read-buffer size: `fast_start` false = ftyp, mdat, moov (frame size chosen), true = ftyp,
    /// moov, mdat (title length chosen)
    Boundary { boundary: u32, back: u8, fast_start: bool },
}

#[derive(Clone, Debug, Serialize, Deserialize)]
pub enum CliCmd {
    Mux {
        video: Option<Input>,
        audio: Option<Input>,
        output: Output,
        /// as typed on the command line (name or alias, any case); None = omitted
        video_codec: Option<String>,
        width: Option<String>,
        height: Option<String>,
        fps: Option<String>,
        audio_codec: Option<String>,
        sample_rate: Option<String>,
        channels: Option<String>,
        title: Option<String>,
        language: Option<String>,
        fragmented: bool,
        dry_run: bool,
    },
    Validate { video: Option<Input>, audio: Option<Input>, report: bool },
    Info { file: InfoFile },
}

#[derive(Clone, Debug, Serialize, Deserialize)]
pub struct CliCase {
    pub cmd: CliCmd,
    pub json: bool,
    pub verbose: bool,
    pub no_progress: bool,
    /// codec the generator had in mind for the frames
    pub vcodec: VCodec,
    pub acodec: Option<ACodec>,
    /// libc-level fault injected into the child through the LD_PRELOAD shim: (kind, call index)
    #[serde(default)]
    pub shim: Option<(String, u32)>,
}

impl CliCase {
    pub fn shrink(&self) -> Vec<CliCase> {
        let mut out = Vec::new();
        let mut c = self.clone();
        if c.verbose || c.no_progress {
            c.verbose = false;
            c.no_progress = false;
            out.push(c);
        }
        if let CliCmd::Mux { title, language, .. } = &self.cmd {
            if title.is_some() || language.is_some() {
                let mut c = self.clone();
                if let CliCmd::Mux { title, language, .. } = &mut c.cmd {
                    *title = None;
                    *language = None;
                }
                out.push(c);
            }
        }
        out
    }
    pub fn sample_view(&self, scenario: &str) -> serde_json::Value {
        serde_json::json!({"scenario": scenario, "argv": self.argv_preview(), "json": self.json, "verbose": self.verbose})
    }
    fn argv_preview(&self) -> Vec<String> {
        let d = PathBuf::from("<dir>");
        self.argv(&d).into_iter().map(|s| String::from_utf8_lossy(&s.into_vec()).into_owned()).collect()
    }

    pub fn argv(&self, dir: &Path) -> Vec<std::ffi::OsString> {
        let mut a: Vec<std::ffi::OsString> = Vec::new();
        let s = |x: &str| std::ffi::OsString::from(x);
        if self.verbose {
            a.push(s("--verbose"));
        }
        if self.json {
            a.push(s("--json"));
        }
        if self.no_progress {
            a.push(s("--no-progress"));
        }
        match &self.cmd {
            CliCmd::Mux { video, audio, output, video_codec, width, height, fps, audio_codec, sample_rate, channels, title, language, fragmented, dry_run } => {
                a.push(s("mux"));
                if video.is_some() {
                    a.push(s("--video"));
                    a.push(dir.join("video.hex").into());
                }
                if audio.is_some() {
                    a.push(s("--audio"));
                    a.push(dir.join("audio.hex").into());
                }
                a.push(s("--output"));
                a.push(match output {
                    Output::Fresh => dir.join("out.mp4").into(),
                    Output::Existing => dir.join("existing.mp4").into(),
                    Output::Directory => dir.join("outdir").into(),
                    Output::MissingParent => dir.join("no/such/dir/out.mp4").into(),
                    Output::DevFull => s("/dev/full"),
                });
                for (flag, val) in [
                    ("--video-codec", video_codec),
                    ("--width", width),
                    ("--height", height),
                    ("--fps", fps),
                    ("--audio-codec", audio_codec),
                    ("--sample-rate", sample_rate),
                    ("--channels", channels),
                    ("--title", title),
                    ("--language", language),
                ] {
                    if let Some(vv) = val {
                        a.push(s(flag));
                        a.push(s(vv));
                    }
                }
                if *fragmented {
                    a.push(s("--fragmented"));
                }
                if *dry_run {
                    a.push(s("--dry-run"));
                }
            }
            CliCmd::Validate { video, audio, report } => {
                a.push(s("validate"));
                if video.is_some() {
                    a.push(s("--video"));
                    a.push(dir.join("video.hex").into());
                }
                if audio.is_some() {
                    a.push(s("--audio"));
                    a.push(dir.join("audio.hex").into());
                }
                if *report {
                    a.push(s("--output"));
                    a.push(dir.join("report.json").into());
                }
            }
            CliCmd::Info { .. } => {
                a.push(s("info"));
                a.push(dir.join("input.mp4").into());
            }
        }
        a
    }
}

fn hex_text(data: &[u8], style: u8) -> Vec<u8> {
    let h = crate::case::to_hex(data);
    match style {
        1 => h.to_uppercase().into_bytes(),
        2 => {
            let mut o = String::from("  \n");
            for (i, ch) in h.chars().enumerate() {
                o.push(ch);
                if i % 2 == 1 && (i / 2) % 16 == 15 {
                    o.push('\n');
                } else if i % 2 == 1 {
                    o.push(if i % 6 == 5 { '\t' } else { ' ' });
                }
            }
            o.push_str("\r\n");
            o.into_bytes()
        }
        3 => format!("{}\n", h).into_bytes(),
        _ => h.into_bytes(),
    }
}

fn materialise(dir: &Path, name: &str, inp: &Input) -> std::io::Result<()> {
    let p = dir.join(name);
    match inp {
        Input::Hex { data, style } => std::fs::write(&p, hex_text(&data.0, *style)),
        Input::OddLength(d) => {
            if d.0.is_empty() {
                std::fs::write(&p, b"00000001674")
            } else {
                // an otherwise perfectly acceptable frame followed by a lone digit
                let mut t = hex_text(&d.0, 0);
                t.push(b'7');
                std::fs::write(&p, t)
            }
        }
        Input::NonHex(d) => {
            if d.0.is_empty() {
                std::fs::write(&p, b"0000000167zz42")
            } else {
                let mut t = hex_text(&d.0, 0);
                let at = (t.len() / 2) & !1;
                t[at] = b'g';
                std::fs::write(&p, t)
            }
        }
        Input::Empty => std::fs::write(&p, b""),
        Input::WhitespaceOnly => std::fs::write(&p, b" \n\t \r\n"),
        Input::NonUtf8 => std::fs::write(&p, [0x30, 0x30, 0xff, 0xfe, 0x80, 0x30, 0x31]),
        Input::Directory => std::fs::create_dir(&p),
        Input::Missing => Ok(()),
        Input::DanglingSymlink => std::os::unix::fs::symlink(dir.join("nowhere"), &p),
        Input::SymlinkLoop => std::os::unix::fs::symlink(&p, &p),
    }
}

pub struct ChildOut {
    pub code: Option<i32>,
    pub stdout: Vec<u8>,
    pub stderr: Vec<u8>,
    pub timed_out: bool,
}

pub fn run_child(dir: &Path, argv: &[std::ffi::OsString], shim: &Option<(String, u32)>) -> std::io::Result<ChildOut> {
    let mut cmd = Command::new(BIN);
    cmd.env_clear();
    if let Some((kind, at)) = shim {
        cmd.env("LD_PRELOAD", SHIM).env("SHIM_KIND", kind).env("SHIM_AT", at.to_string()).env("SHIM_LOG", dir.join("shim.log"));
    }
    let mut child = cmd
        .args(argv)
        .current_dir(dir)
        .env("LANG", "C")
        .env("RUST_BACKTRACE", "0")
        .env("NO_COLOR", "1")
        .stdin(Stdio::null())
        .stdout(Stdio::piped())
        .stderr(Stdio::piped())
        .spawn()?;
    let mut so = child.stdout.take().unwrap();
    let mut se = child.stderr.take().unwrap();
    let t1 = std::thread::spawn(move || {
        let mut b = Vec::new();
        let _ = so.read_to_end(&mut b);
        b
    });
    let t2 = std::thread::spawn(move || {
        let mut b = Vec::new();
        let _ = se.read_to_end(&mut b);
        b
    });
    let start = std::time::Instant::now();
    let mut timed_out = false;
    let status = loop {
        match child.try_wait()? {
            Some(s) => break Some(s),
            None => {
                if start.elapsed().as_secs() >= 20 {
                    let _ = child.kill();
                    let _ = child.wait();
                    timed_out = true;
                    break None;
                }
                std::thread::sleep(std::time::Duration::from_millis(2));
            }
        }
    };
    let stdout = t1.join().unwrap_or_default();
    let stderr = t2.join().unwrap_or_default();
    Ok(ChildOut { code: status.and_then(|s| s.code()), stdout, stderr, timed_out })
}

// ---------------------------------------------------------------- generation

fn good_dim(rng: &mut Rng) -> (u32, u32) {
    *rng.pick(&[(320u32, 240u32), (640, 480), (1280, 720), (1920, 1080), (4096, 2160), (3840, 2160), (321, 241)])
}

pub fn gen(rng: &mut Rng, scenario: &str) -> CliCase {
    let vcodec = *rng.pick(&VCODECS);
    let stamp = rng.next_u64();
    let vframe = frames::build_video(rng, vcodec, FrameShape::KeyWithConfig, stamp, 24, true).data;
    let acodec = if rng.chance(1, 2) { Some(*rng.pick(&ACODECS_REAL)) } else { None };
    let aframe = acodec.map(|a| frames::build_audio(rng, a, stamp ^ 1, 20, true).data);
    let style = |rng: &mut Rng| rng.below(4) as u8;
    let vframe_for_bad = vframe.clone();
    let bad_input = move |rng: &mut Rng| -> Input {
        let f = if rng.bool() { Hex(vframe_for_bad.clone()) } else { Hex(vec![]) };
        rng.pick(&[Input::OddLength(f.clone()), Input::OddLength(f.clone()), Input::NonHex(f), Input::Empty, Input::WhitespaceOnly, Input::NonUtf8, Input::Directory, Input::Missing, Input::DanglingSymlink, Input::SymlinkLoop]).clone()
    };
    let vnames: &[&str] = match vcodec {
        VCodec::H264 => &["h264", "H264", "h.264", "avc", "AVC"],
        VCodec::H265 => &["h265", "hevc", "HEVC", "h.265", "H.265"],
        VCodec::Av1 => &["av1", "AV1"],
        VCodec::Vp9 => &["vp9", "VP9"],
    };
    let json = rng.chance(1, 2);
    let verbose = rng.chance(1, 3);
    let no_progress = rng.chance(1, 2);
    let cmd = match scenario {
        "validate" => {
            let mut pick = |rng: &mut Rng, frame: &[u8]| -> Option<Input> {
                match rng.below(10) {
                    0 => None,
                    1..=5 => Some(Input::Hex { data: Hex(frame.to_vec()), style: style(rng) }),
                    6 => Some(Input::Hex { data: Hex(rng.bytes(9)), style: style(rng) }),
                    _ => Some(bad_input(rng)),
                }
            };
            let video = pick(rng, &vframe);
            let audio = pick(rng, aframe.as_deref().unwrap_or(&[0xfc, 1, 2]));
            CliCmd::Validate { video, audio, report: rng.chance(1, 4) }
        }
        "info" => {
            let k = crate::gen::Knobs::functional();
            let file = match rng.below(10) {
                0..=3 => InfoFile::Library(Box::new(crate::gen::gen_prog(rng, &k).0)),
                4 => InfoFile::Fragmented(Box::new(crate::gen::gen_frag(rng, &crate::gen::FragKnobs { reject_pct: 0, boundary: false, big: false, long_pct: 0 }))),
                5 => InfoFile::Truncated(Box::new(crate::gen::gen_prog(rng, &k).0), rng.below(400) as u32),
                6 => InfoFile::Corrupted(Box::new(crate::gen::gen_prog(rng, &k).0), rng.below(64) as u32, (rng.next_u64() & 0xff) as u8),
                7 => {
                    let n = *rng.pick(&[0usize, 1, 7, 8, 9, 16, 100]);
                    let mut d = rng.bytes(n);
                    if n >= 8 && rng.bool() {
                        // adversarial sizes: 0, 1, tiny, huge
                        let sz: u32 = *rng.pick(&[0u32, 1, 2, 7, 8, u32::MAX, 0x8000_0000]);
                        d[..4].copy_from_slice(&sz.to_be_bytes());
                    }
                    InfoFile::Random(Hex(d))
                }
                8 if rng.bool() => InfoFile::Missing,
                8 => InfoFile::Boundary { boundary: *rng.pick(&[4096u32, 8192, 8192, 8192, 16384, 65536]), back: rng.range(1, 7) as u8, fast_start: rng.bool() },
                _ if rng.bool() => InfoFile::Directory,
                _ => InfoFile::Boundary { boundary: *rng.pick(&[4096u32, 8192, 8192, 8192, 16384, 65536]), back: rng.range(0, 9) as u8, fast_start: rng.bool() },
            };
            CliCmd::Info { file }
        }
        _ => {
            // mux
            let valid = scenario == "mux-valid" || scenario == "mux-faulted";
            let (w, h) = good_dim(rng);
            let mut width = Some(w.to_string());
            let mut height = Some(h.to_string());
            let mut fps = Some(rng.pick(&["30", "29.97", "24", "60", "120", "0.5", "1"]).to_string());
            let mut video = Some(Input::Hex { data: Hex(vframe.clone()), style: style(rng) });
            let mut video_codec = if vcodec == VCodec::H264 && rng.bool() { None } else { Some(rng.pick(vnames).to_string()) };
            let mut audio = aframe.as_ref().map(|f| Input::Hex { data: Hex(f.clone()), style: style(rng) });
            let mut audio_codec = acodec.map(|a| if a == ACodec::AacLc && rng.bool() { None } else { Some(if rng.bool() { a.cli_name().to_string() } else { a.cli_name().to_uppercase() }) }).unwrap_or(None);
            let mut sample_rate = acodec.map(|_| rng.pick(&["48000", "44100", "8000", "192000", "1"]).to_string());
            let mut channels = acodec.map(|_| rng.pick(&["1", "2", "6", "8"]).to_string());
            let title = if rng.chance(1, 2) { Some(rng.pick(&["My Recording", "", "日本語 🎬", "a b  c", "-dash"]).to_string()).filter(|t| !t.starts_with('-')) } else { None };
            let language = if rng.chance(1, 3) { Some(rng.pick(&["eng", "spa", "und", "jpn"]).to_string()) } else { None };
            let mut output = if rng.chance(1, 4) { Output::Existing } else { Output::Fresh };
            let mut fragmented = false;
            let mut dry_run = false;
            if !valid {
                // break exactly one thing (sometimes two)
                let breaks = if rng.chance(1, 5) { 2 } else { 1 };
                for _ in 0..breaks {
                    match rng.below(16) {
                        0 => video = Some(bad_input(rng)),
                        1 => {
                            if audio.is_some() {
                                audio = Some(match (bad_input(rng), &aframe) {
                                    (Input::OddLength(h), Some(a)) if !h.0.is_empty() => Input::OddLength(Hex(a.clone())),
                                    (Input::NonHex(h), Some(a)) if !h.0.is_empty() => Input::NonHex(Hex(a.clone())),
                                    (x, _) => x,
                                })
                            } else {
                                video = Some(bad_input(rng))
                            }
                        }
                        2 => width = None,
                        3 => height = None,
                        4 => fps = None,
                        5 => width = Some(rng.pick(&["0", "319", "4097", "100000", "4294967295"]).to_string()),
                        6 => height = Some(rng.pick(&["0", "239", "2161", "65536"]).to_string()),
                        7 => fps = Some(rng.pick(&["0", "-1", "120.5", "1000", "NaN", "inf"]).to_string()),
                        8 => {
                            if audio.is_some() {
                                sample_rate = Some(rng.pick(&["0", "192001", "4294967295"]).to_string())
                            } else {
                                output = Output::Directory
                            }
                        }
                        9 => {
                            if audio.is_some() {
                                channels = Some(rng.pick(&["0", "9", "255"]).to_string())
                            } else {
                                output = Output::MissingParent
                            }
                        }
                        10 => output = *rng.pick(&[Output::Directory, Output::MissingParent, Output::DevFull]),
                        11 => {
                            // frame that the library must refuse as a first frame
                            let shape = *rng.pick(&[FrameShape::Delta, FrameShape::KeyNoConfig]);
                            let f = frames::build_video(rng, vcodec, shape, stamp, 24, false).data;
                            video = Some(Input::Hex { data: Hex(f), style: style(rng) });
                        }
                        12 => {
                            if let Some(f) = &aframe {
                                let d = frames::mangle(rng, f, Mangle::Truncate);
                                audio = Some(Input::Hex { data: Hex(d), style: style(rng) });
                            } else {
                                video = Some(Input::Missing);
                            }
                        }
                        13 => {
                            if audio.is_some() {
                                if rng.bool() {
                                    sample_rate = None
                                } else {
                                    channels = None
                                }
                            } else {
                                video_codec = Some(rng.pick(&["h266", "mpeg2", "", "x264"]).to_string())
                            }
                        }
                        14 => {
                            // Either-class variations
                            match rng.below(3) {
                                0 => fragmented = true,
                                1 => dry_run = true,
                                _ => {
                                    video = None;
                                }
                            }
                        }
                        _ => {
                            if audio.is_some() {
                                audio_codec = Some(rng.pick(&["mp3", "none", "aac-xyz"]).to_string())
                            } else {
                                video = Some(Input::Missing)
                            }
                        }
                    }
                }
            }
            CliCmd::Mux { video, audio, output, video_codec, width, height, fps, audio_codec, sample_rate, channels, title, language, fragmented, dry_run }
        }
    };
    let shim = if scenario == "mux-faulted" { Some((rng.pick(&SHIM_KINDS).to_string(), rng.range(1, 10) as u32)) } else { None };
    CliCase { cmd, json, verbose, no_progress, vcodec, acodec, shim }
}

// ---------------------------------------------------------------- expectations

#[derive(Debug, PartialEq)]
enum Expect {
    MustSucceed,
    MustFail(&'static str),
    Either(&'static str),
}

fn parse_vcodec(s: &str) -> Option<VCodec> {
    match s.to_lowercase().as_str() {
        "h264" | "h.264" | "avc" => Some(VCodec::H264),
        "h265" | "h.265" | "hevc" => Some(VCodec::H265),
        "av1" => Some(VCodec::Av1),
        "vp9" => Some(VCodec::Vp9),
        _ => None,
    }
}
fn parse_acodec(s: &str) -> Option<ACodec> {
    match s.to_lowercase().as_str() {
        "aac" | "aac-lc" => Some(ACodec::AacLc),
        "aac-main" => Some(ACodec::AacMain),
        "aac-ssr" => Some(ACodec::AacSsr),
        "aac-ltp" => Some(ACodec::AacLtp),
        "aac-he" => Some(ACodec::AacHe),
        "aac-hev2" => Some(ACodec::AacHev2),
        "opus" => Some(ACodec::Opus),
        "none" => Some(ACodec::NoneCodec),
        _ => None,
    }
}

struct MuxPlan {
    expect: Expect,
    /// the equivalent library history, when the inputs are readable
    lib: Option<ProgCase>,
    n_video: u64,
    n_audio: u64,
}

fn plan_mux(c: &CliCase) -> MuxPlan {
    let none = |e: Expect| MuxPlan { expect: e, lib: None, n_video: 0, n_audio: 0 };
    let (video, audio, output, video_codec, width, height, fps, audio_codec, sample_rate, channels, title, language, fragmented, dry_run) = match &c.cmd {
        CliCmd::Mux { video, audio, output, video_codec, width, height, fps, audio_codec, sample_rate, channels, title, language, fragmented, dry_run } => {
            (video, audio, output, video_codec, width, height, fps, audio_codec, sample_rate, channels, title, language, *fragmented, *dry_run)
        }
        _ => return none(Expect::Either("not mux")),
    };
    if dry_run {
        return none(Expect::Either("--dry-run"));
    }
    if fragmented {
        return none(Expect::Either("--fragmented"));
    }
    if video.is_none() && audio.is_none() {
        return none(Expect::MustFail("no inputs"));
    }
    if video.is_none() {
        return none(Expect::Either("audio only"));
    }
    // argument syntax (clap rejects before anything runs)
    let vc = match video_codec {
        None => VCodec::H264,
        Some(s) => match parse_vcodec(s) {
            Some(v) => v,
            None => return none(Expect::MustFail("unknown video codec name")),
        },
    };
    let pu32 = |s: &Option<String>| -> Result<Option<u32>, ()> {
        match s {
            None => Ok(None),
            Some(x) => x.parse::<u32>().map(Some).map_err(|_| ()),
        }
    };
    let (w, h) = match (pu32(width), pu32(height)) {
        (Ok(a), Ok(b)) => (a, b),
        _ => return none(Expect::MustFail("width/height not a u32")),
    };
    let f: Option<f64> = match fps {
        None => None,
        Some(x) => match x.parse::<f64>() {
            Ok(v) => Some(v),
            Err(_) => return none(Expect::MustFail("fps not a number")),
        },
    };
    let (w, h, f) = match (w, h, f) {
        (Some(w), Some(h), Some(f)) => (w, h, f),
        _ => return none(Expect::MustFail("video parameter missing")),
    };
    if !(320..=4096).contains(&w) || !(240..=2160).contains(&h) {
        return none(Expect::MustFail("dimensions outside 320x240..4096x2160"));
    }
    if !(f > 0.0 && f <= 120.0) {
        return none(Expect::MustFail("fps outside (0, 120]"));
    }
    let mut acfg: Option<AudioCfg> = None;
    if audio.is_some() {
        let ac = match audio_codec {
            None => ACodec::AacLc,
            Some(s) => match parse_acodec(s) {
                Some(a) => a,
                None => return none(Expect::MustFail("unknown audio codec name")),
            },
        };
        let sr = match pu32(sample_rate) {
            Ok(x) => x,
            Err(_) => return none(Expect::MustFail("sample rate not a u32")),
        };
        let ch: Option<u8> = match channels {
            None => None,
            Some(x) => match x.parse::<u8>() {
                Ok(v) => Some(v),
                Err(_) => return none(Expect::MustFail("channels not a u8")),
            },
        };
        let (sr, ch) = match (sr, ch) {
            (Some(a), Some(b)) => (a, b),
            _ => return none(Expect::MustFail("audio parameter missing")),
        };
        if ac == ACodec::NoneCodec {
            return none(Expect::Either("--audio-codec none with an audio input"));
        }
        if sr == 0 || sr > 192000 {
            return none(Expect::MustFail("sample rate outside 1..=192000"));
        }
        if ch == 0 || ch > 8 {
            return none(Expect::MustFail("channels outside 1..=8"));
        }
        acfg = Some(AudioCfg { codec: ac, rate: sr, channels: ch as u16, alias: false });
    }
    // inputs
    let vdata = match video.as_ref().unwrap().readable_hex() {
        Some(d) => d.to_vec(),
        None => return none(Expect::MustFail("video input missing/unreadable/not hex")),
    };
    let adata = match audio {
        Some(a) => match a.readable_hex() {
            Some(d) => Some(d.to_vec()),
            None => return none(Expect::MustFail("audio input missing/unreadable/not hex")),
        },
        None => None,
    };
    // equivalent library history
    let meta = if title.is_some() || language.is_some() { Some(MetaCfg { title: title.clone(), ctime: None, lang: language.clone(), style: 0 }) } else { None };
    let mut ops = vec![Op::Video { pts: F(0.0), data: Hex(vdata), key: true, cc: false }];
    if let Some(d) = adata {
        ops.push(Op::Audio { pts: F(0.0), data: Hex(d) });
    }
    ops.push(Op::Finish(FinishKind::Consume));
    let lib = ProgCase { cfg: ProgCfg { video: Some(VideoCfg { codec: vc, width: w, height: h, fps: F(f), alias: false }), audio: acfg, video_prior: None, audio_prior: None, fast_start: None, meta, sink: SinkKind::Sim }, ops, faults: FaultPlan::default() };
    let ex = exec::run_prog(&lib);
    let all_ok = ex.build.is_ok() && ex.ops.iter().all(|o| o.res.is_ok());
    let n_audio = if lib.ops.len() == 3 { 1 } else { 0 };
    let expect = if !all_ok {
        Expect::MustFail("the library refuses this frame / configuration")
    } else {
        match output {
            Output::Fresh | Output::Existing => Expect::MustSucceed,
            Output::Directory => Expect::MustFail("output path is a directory"),
            Output::MissingParent => Expect::MustFail("output directory does not exist"),
            Output::DevFull => Expect::MustFail("output device is full (ENOSPC)"),
        }
    };
    MuxPlan { expect, lib: Some(lib), n_video: 1, n_audio }
}

fn reports_completion(out: &ChildOut) -> bool {
    let so = String::from_utf8_lossy(&out.stdout);
    let se = String::from_utf8_lossy(&out.stderr);
    so.contains("Muxing complete") || se.contains("Muxing complete") || so.contains("\"video_frames\"") || so.contains("Video frames:")
}

pub fn eval(c: &CliCase, st: &mut RunStats, uniq: u64) -> Vec<Violation> {
    let mut out = Vec::new();
    if !Path::new(BIN).exists() {
        panic!("harness: {} not built (sim/check.sh builds it)", BIN);
    }
    let dir = PathBuf::from(format!("/verif/work/cli-{}-{:x}", std::process::id(), uniq));
    let _ = std::fs::remove_dir_all(&dir);
    std::fs::create_dir_all(&dir).expect("harness: scratch dir");
    let r = eval_in(c, st, &dir, &mut out);
    let _ = std::fs::remove_dir_all(&dir);
    if let Err(e) = r {
        panic!("harness: {}", e);
    }
    out
}

fn eval_in(c: &CliCase, st: &mut RunStats, dir: &Path, out: &mut Vec<Violation>) -> std::io::Result<()> {
    let mut th = Hasher64::new();
    let mut ah = Hasher64::new();
    match &c.cmd {
        CliCmd::Mux { video, audio, output, .. } => {
            if let Some(i) = video {
                materialise(dir, "video.hex", i)?;
                *st.fired.entry(fs_kind(i)).or_insert(0) += 1;
                ah.str(i.name());
            }
            if let Some(i) = audio {
                materialise(dir, "audio.hex", i)?;
                *st.fired.entry(fs_kind(i)).or_insert(0) += 1;
                ah.str(i.name());
            }
            match output {
                Output::Existing => std::fs::write(dir.join("existing.mp4"), vec![0xEEu8; 5000])?,
                Output::Directory => std::fs::create_dir(dir.join("outdir"))?,
                _ => {}
            }
            *st.fired.entry(match output {
                Output::Fresh => "output_fresh",
                Output::Existing => "output_existing_file",
                Output::Directory => "output_is_directory(EISDIR)",
                Output::MissingParent => "output_parent_missing(ENOENT)",
                Output::DevFull => "output_dev_full(ENOSPC)",
            })
            .or_insert(0) += 1;
            let plan = plan_mux(c);
            let argv = c.argv(dir);
            let child = run_child(dir, &argv, &c.shim)?;
            th.u64(child.code.unwrap_or(-99) as u64);
            th.str(&String::from_utf8_lossy(&child.stdout).replace(&dir.display().to_string(), "<dir>"));
            ah.str(&format!("{:?}", plan.expect));
            ah.u64(c.json as u64 * 2 + c.verbose as u64);
            ah.str(c.vcodec.name());
            ah.str(&format!("{:?}{:?}", c.acodec, output));
            if child.timed_out {
                out.push(v("C20", "hang", "mux", "mux command did not terminate within 20 s".to_string()));
                return Ok(());
            }
            let completion = reports_completion(&child);
            // a libc-level fault that really fired turns a valid run into one that must fail loudly
            let mut plan = plan;
            if let Some((kind, _)) = &c.shim {
                let fired = std::fs::read_to_string(dir.join("shim.log")).map(|t| !t.is_empty()).unwrap_or(false);
                if fired {
                    *st.fired.entry(match kind.as_str() {
                        "eio_write" => "shim_eio_on_write",
                        "enospc_write" => "shim_enospc_on_write",
                        "eintr_write" => "shim_eintr_on_write",
                        "short_write" => "shim_short_write",
                        "eio_read" => "shim_eio_on_read",
                        "eintr_read" => "shim_eintr_on_read",
                        _ => "shim_short_read",
                    })
                    .or_insert(0) += 1;
                    if plan.expect == Expect::MustSucceed && matches!(kind.as_str(), "eio_write" | "enospc_write" | "eio_read") {
                        plan.expect = Expect::MustFail(match kind.as_str() {
                            "eio_read" => "EIO while reading an input (injected at read(2))",
                            "enospc_write" => "ENOSPC while writing the output (injected at write(2))",
                            _ => "EIO while writing the output (injected at write(2))",
                        });
                    }
                }
                ah.str(kind);
                ah.u64(fired as u64);
            }
            match &plan.expect {
                Expect::MustSucceed => {
                    st.count("mux_must_succeed", 1);
                    if child.code != Some(0) {
                        out.push(v("C20", "valid-mux-failed", normalise(&String::from_utf8_lossy(&child.stderr).lines().last().unwrap_or("").chars().take(80).collect::<String>()), format!("valid option combination exited with {:?}: {}", child.code, String::from_utf8_lossy(&child.stderr).chars().take(300).collect::<String>())));
                        return Ok(());
                    }
                    let path = if *output == Output::Existing { dir.join("existing.mp4") } else { dir.join("out.mp4") };
                    let got = std::fs::read(&path).unwrap_or_default();
                    let lib = plan.lib.as_ref().unwrap();
                    let ex = exec::run_prog(lib);
                    if got != ex.sink.bytes {
                        let pos = got.iter().zip(ex.sink.bytes.iter()).position(|(a, b)| a != b).unwrap_or(got.len().min(ex.sink.bytes.len()));
                        // which setting was lost?
                        let mut what = "file";
                        if let CliCmd::Mux { title, language, .. } = &c.cmd {
                            let mut l2 = lib.clone();
                            l2.cfg.meta = None;
                            if exec::run_prog(&l2).sink.bytes == got && (title.is_some() || language.is_some()) {
                                what = "metadata-dropped";
                            }
                        }
                        out.push(v("C20", "output-differs-from-library", what, format!("the CLI wrote {} bytes, the library produces {} bytes for the same frame and settings; first difference at byte {}", got.len(), ex.sink.bytes.len(), pos)));
                        return Ok(());
                    }
                    // reported counts
                    let so = String::from_utf8_lossy(&child.stdout).to_string();
                    let (rv, ra) = if c.json {
                        match serde_json::from_str::<serde_json::Value>(&so) {
                            Ok(j) => (j["video_frames"].as_u64(), j["audio_frames"].as_u64()),
                            Err(_) => (None, None),
                        }
                    } else {
                        let grab = |tag: &str| so.lines().find_map(|l| l.trim().strip_prefix(tag).and_then(|x| x.trim().parse::<u64>().ok()));
                        (grab("Video frames:"), grab("Audio frames:"))
                    };
                    // "the frame counts it reports match": a count that is reported in a form this harness does not
                    // know is not judged (the output format is not part of the property); one that is found must match
                    if rv.is_none() || ra.is_none() {
                        st.count("mux_counts_not_located", 1);
                    }
                    if rv.map(|x| x != plan.n_video).unwrap_or(false) || ra.map(|x| x != plan.n_audio).unwrap_or(false) {
                        out.push(v("C20", "reported-counts", if c.json { "json" } else { "text" }, format!("reported video/audio frames {:?}/{:?}, inputs were {}/{}; stdout: {}", rv, ra, plan.n_video, plan.n_audio, so.chars().take(200).collect::<String>())));
                    }
                    st.nontrivial = Some(ah.finish());
                }
                Expect::MustFail(why) => {
                    st.count("mux_must_fail", 1);
                    st.count(&format!("mux_must_fail: {}", why), 1);
                    if child.code == Some(0) {
                        out.push(v("C20", "invalid-mux-succeeded", *why, format!("[{}] the command exited successfully; stdout: {}", why, String::from_utf8_lossy(&child.stdout).chars().take(200).collect::<String>())));
                    } else if completion {
                        out.push(v("C20", "failure-reports-completion", *why, format!("[{}] exit status {:?} but the output reports completion; stdout: {}", why, child.code, String::from_utf8_lossy(&child.stdout).chars().take(200).collect::<String>())));
                    }
                    st.nontrivial = Some(ah.finish());
                }
                Expect::Either(why) => {
                    st.count(&format!("mux_either: {}", why), 1);
                    // still: a failing exit status must not come with a completion report
                    if child.code != Some(0) && completion {
                        out.push(v("C20", "failure-reports-completion", *why, format!("[{}] exit status {:?} but the output reports completion", why, child.code)));
                    }
                }
            }
        }
        CliCmd::Validate { video, audio, report } => {
            if let Some(i) = video {
                materialise(dir, "video.hex", i)?;
                *st.fired.entry(fs_kind(i)).or_insert(0) += 1;
                ah.str(i.name());
            }
            if let Some(i) = audio {
                materialise(dir, "audio.hex", i)?;
                *st.fired.entry(fs_kind(i)).or_insert(0) += 1;
                ah.str(i.name());
            }
            ah.u64(c.json as u64 * 2 + *report as u64);
            let argv = c.argv(dir);
            let child = run_child(dir, &argv, &c.shim)?;
            th.u64(child.code.unwrap_or(-99) as u64);
            th.str(&String::from_utf8_lossy(&child.stdout).replace(&dir.display().to_string(), "<dir>"));
            if child.timed_out {
                out.push(v("C20", "hang", "validate", "validate command did not terminate within 20 s".to_string()));
                return Ok(());
            }
            if video.is_none() && audio.is_none() {
                st.count("validate_either: no inputs", 1);
                return Ok(());
            }
            let is_valid_input = |i: &Input| matches!(i, Input::Hex { data, .. } if !data.0.is_empty());
            let want = video.iter().chain(audio.iter()).all(is_valid_input);
            let so = String::from_utf8_lossy(&child.stdout).to_string();
            let verdict: Option<bool> = if *report {
                std::fs::read(dir.join("report.json")).ok().and_then(|b| serde_json::from_slice::<serde_json::Value>(&b).ok()).and_then(|j| j["valid"].as_bool())
            } else if c.json {
                serde_json::from_str::<serde_json::Value>(&so).ok().and_then(|j| j["valid"].as_bool())
            } else if so.contains("Validation successful") {
                Some(true)
            } else if so.contains("Validation failed") {
                Some(false)
            } else {
                None
            };
            let names: Vec<&str> = video.iter().chain(audio.iter()).map(|i| i.name()).collect();
            match verdict {
                Some(vd) if vd == want => {
                    st.nontrivial = Some(ah.finish());
                }
                Some(vd) => {
                    out.push(v("C20", "validate-verdict", format!("{}:{}", if want { "valid-called-invalid" } else { "invalid-called-valid" }, names.join("+")), format!("validate said valid={} for inputs {:?}; exit {:?}", vd, names, child.code)));
                }
                None => {
                    // no verdict at all: only acceptable as a loud failure for an invalid input
                    if want || child.code == Some(0) {
                        out.push(v("C20", "validate-verdict", format!("none:{}", names.join("+")), format!("validate produced no verdict (exit {:?}) for inputs {:?}; stdout: {}", child.code, names, so.chars().take(200).collect::<String>())));
                    }
                }
            }
        }
        CliCmd::Info { file } => {
            let p = dir.join("input.mp4");
            let mut expect_boxes: Option<Vec<(String, u64, u64)>> = None;
            let lib_bytes = |pc: &ProgCase| -> Vec<u8> {
                let mut pc = pc.clone();
                pc.faults = FaultPlan::default();
                exec::run_prog(&pc).sink.bytes
            };
            let mut well_formed = |b: &[u8]| -> Option<Vec<(String, u64, u64)>> {
                let tree = crate::reader::parse_tree(b).ok()?;
                Some(tree.iter().map(|n| (n.name(), n.size as u64, n.start as u64)).collect())
            };
            match file {
                InfoFile::Library(pc) => {
                    let b = lib_bytes(pc);
                    if b.len() >= 8 {
                        expect_boxes = well_formed(&b);
                    }
                    std::fs::write(&p, &b)?;
                    ah.str("library");
                }
                InfoFile::Fragmented(fc) => {
                    let mut fc2 = (**fc).clone();
                    fc2.ops.insert(0, FragOp::Init);
                    let ex = exec::run_frag(&fc2);
                    let mut b = Vec::new();
                    for o in &ex.ops {
                        match o {
                            exec::FragRes::Init(x) if b.is_empty() => b.extend_from_slice(x),
                            exec::FragRes::Flushed(Some(x)) => b.extend_from_slice(x),
                            _ => {}
                        }
                    }
                    if b.len() >= 8 {
                        expect_boxes = well_formed(&b);
                    }
                    std::fs::write(&p, &b)?;
                    ah.str("fragmented");
                }
                InfoFile::Truncated(pc, cut) => {
                    let mut b = lib_bytes(pc);
                    let n = b.len().saturating_sub(*cut as usize + 1);
                    b.truncate(n);
                    std::fs::write(&p, &b)?;
                    ah.str("truncated");
                    *st.fired.entry("info_truncated_file").or_insert(0) += 1;
                }
                InfoFile::Corrupted(pc, at, val) => {
                    let mut b = lib_bytes(pc);
                    if !b.is_empty() {
                        let i = (*at as usize) % b.len();
                        b[i] = *val;
                    }
                    std::fs::write(&p, &b)?;
                    ah.str("corrupted");
                    *st.fired.entry("info_flipped_stored_byte").or_insert(0) += 1;
                }
                InfoFile::Random(h) => {
                    std::fs::write(&p, &h.0)?;
                    ah.str("random");
                    *st.fired.entry("info_random_contents").or_insert(0) += 1;
                }
                InfoFile::Missing => {
                    ah.str("missing");
                    *st.fired.entry("input_missing(ENOENT)").or_insert(0) += 1;
                }
                InfoFile::Directory => {
                    std::fs::create_dir(&p)?;
                    ah.str("directory");
                    *st.fired.entry("input_is_directory(EISDIR)").or_insert(0) += 1;
                }
                InfoFile::Boundary { boundary, back, fast_start } => {
                    // one VP9 key frame (stored unchanged); the knob is its length (moov last) or the title length (moov first)
                    let target = *boundary as i64 - *back as i64;
                    let build = |knob: usize| -> Vec<u8> {
                        let mut r = crate::rng::Rng::new(0x626f756e64);
                        let f = crate::frames::build_vp9(&mut r, crate::frames::FrameShape::KeyWithConfig, 7, if *fast_start { 40 } else { knob }, false);
                        let pc = ProgCase {
                            cfg: ProgCfg {
                                video: Some(VideoCfg { codec: VCodec::Vp9, width: 640, height: 480, fps: F(30.0), alias: false }),
                                audio: None,
                                video_prior: None,
                                audio_prior: None,
                                fast_start: Some(*fast_start),
                                meta: if *fast_start { Some(MetaCfg { title: Some("t".repeat(knob.max(1))), ctime: None, lang: None, style: 0 }) } else { None },
                                sink: SinkKind::VecU8,
                            },
                            ops: vec![Op::Video { pts: F(0.0), data: Hex(f.data), key: true, cc: true }, Op::Finish(FinishKind::InPlace)],
                            faults: FaultPlan::default(),
                        };
                        exec::run_prog(&pc).sink.bytes
                    };
                    let third = |b: &[u8]| -> Option<i64> { crate::reader::parse_tree(b).ok().and_then(|t| t.get(2).map(|n| n.start as i64)) };
                    let mut knob = 64usize;
                    let mut b = build(knob);
                    for _ in 0..3 {
                        if let Some(s0) = third(&b) {
                            let want = knob as i64 + (target - s0);
                            if want < 1 {
                                break;
                            }
                            knob = want as usize;
                            b = build(knob);
                        }
                    }
                    if third(&b) == Some(target) {
                        *st.fired.entry("info_box_header_at_buffer_boundary").or_insert(0) += 1;
                    }
                    if b.len() >= 8 {
                        expect_boxes = well_formed(&b);
                    }
                    std::fs::write(&p, &b)?;
                    ah.str("boundary");
                }
            }
            ah.u64(c.json as u64);
            let argv = c.argv(dir);
            let child = run_child(dir, &argv, &c.shim)?;
            th.u64(child.code.unwrap_or(-99) as u64);
            th.str(&String::from_utf8_lossy(&child.stdout).replace(&dir.display().to_string(), "<dir>"));
            if child.timed_out {
                out.push(v("C20", "hang", "info", "info command did not terminate within 20 s".to_string()));
                return Ok(());
            }
            if let Some(want) = expect_boxes {
                let so = String::from_utf8_lossy(&child.stdout).to_string();
                let got: Option<Vec<(String, u64, Option<u64>)>> = if c.json {
                    serde_json::from_str::<serde_json::Value>(&so).ok().and_then(|j| {
                        j["boxes"].as_array().map(|a| a.iter().map(|b| (b["type"].as_str().unwrap_or("?").to_string(), b["size"].as_u64().unwrap_or(u64::MAX), b["offset"].as_u64())).collect())
                    })
                } else {
                    let mut seen = false;
                    let mut v_ = Vec::new();
                    for l in so.lines() {
                        if l.starts_with("Boxes found:") {
                            seen = true;
                            continue;
                        }
                        if seen {
                            if let Some((t, rest)) = l.trim().split_once(": ") {
                                if let Some(n) = rest.strip_suffix(" bytes").and_then(|x| x.parse::<u64>().ok()) {
                                    v_.push((t.to_string(), n, None));
                                }
                            }
                        }
                    }
                    if seen {
                        Some(v_)
                    } else {
                        None
                    }
                };
                // a listing in a form this harness does not know is not judged (the output format is not part of the
                // property), as long as the command succeeded; one that is found must be exact
                let ok = match &got {
                    Some(g) => g.len() == want.len() && g.iter().zip(want.iter()).all(|(a, b)| a.0 == b.0 && a.1 == b.1 && a.2.map(|o| o == b.2).unwrap_or(true)),
                    None => {
                        st.count("info_listing_not_located", 1);
                        child.code == Some(0)
                    }
                };
                if child.code != Some(0) || !ok {
                    out.push(v("C20", "info-box-list", if c.json { "json" } else { "text" }, format!("info (exit {:?}) listed {:?} for a well-formed file whose top-level boxes are {:?}", child.code, got, want)));
                }
                st.nontrivial = Some(ah.finish());
            } else {
                st.nontrivial = Some(ah.finish());
            }
        }
    }
    st.trace_hash = th.finish();
    Ok(())
}

fn fs_kind(i: &Input) -> &'static str {
    match i {
        Input::Hex { .. } => "input_valid_hex",
        Input::OddLength(_) => "input_odd_length_hex",
        Input::NonHex(_) => "input_non_hex",
        Input::Empty => "input_empty",
        Input::WhitespaceOnly => "input_whitespace_only",
        Input::NonUtf8 => "input_non_utf8(InvalidData)",
        Input::Directory => "input_is_directory(EISDIR)",
        Input::Missing => "input_missing(ENOENT)",
        Input::DanglingSymlink => "input_dangling_symlink(ENOENT)",
        Input::SymlinkLoop => "input_symlink_loop(ELOOP)",
    }
}
