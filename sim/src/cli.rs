//! S-CLI (C20): placeholder, filled in below.
use serde::{Deserialize, Serialize};

#[derive(Clone, Debug, Serialize, Deserialize)]
pub struct CliCase {}
impl CliCase {
    pub fn shrink(&self) -> Vec<CliCase> { Vec::new() }
    pub fn sample_view(&self, scenario: &str) -> serde_json::Value { serde_json::json!({"scenario": scenario}) }
}
