//! SplitMix64. The only source of randomness in the simulator. One integer
//! (VERIF_SEED) decides everything; run i of scenario `tag` uses
//! `Rng::for_run(seed, tag, i)`.

#[derive(Clone, Debug)]
pub struct Rng {
    s: u64,
}

fn mix64(mut z: u64) -> u64 {
    z = (z ^ (z >> 30)).wrapping_mul(0xbf58476d1ce4e5b9);
    z = (z ^ (z >> 27)).wrapping_mul(0x94d049bb133111eb);
    z ^ (z >> 31)
}

pub fn tag_hash(tag: &str) -> u64 {
    // FNV-1a, stable across platforms and runs
    let mut h: u64 = 0xcbf29ce484222325;
    for b in tag.as_bytes() {
        h ^= *b as u64;
        h = h.wrapping_mul(0x100000001b3);
    }
    h
}

impl Rng {
    pub fn new(seed: u64) -> Self {
        Rng { s: seed }
    }
    pub fn for_run(seed: u64, tag: &str, i: u64) -> Self {
        let a = mix64(seed ^ 0x9e3779b97f4a7c15);
        let b = mix64(a ^ tag_hash(tag));
        let c = mix64(b ^ i.wrapping_mul(0xd1342543de82ef95));
        Rng { s: c }
    }
    pub fn next_u64(&mut self) -> u64 {
        self.s = self.s.wrapping_add(0x9e3779b97f4a7c15);
        mix64(self.s)
    }
    /// uniform in 0..n (n > 0)
    pub fn below(&mut self, n: u64) -> u64 {
        debug_assert!(n > 0);
        // multiply-shift; bias negligible for our n
        ((self.next_u64() as u128 * n as u128) >> 64) as u64
    }
    pub fn range(&mut self, lo: u64, hi_incl: u64) -> u64 {
        lo + self.below(hi_incl - lo + 1)
    }
    pub fn usize(&mut self, n: usize) -> usize {
        self.below(n as u64) as usize
    }
    pub fn chance(&mut self, num: u64, den: u64) -> bool {
        self.below(den) < num
    }
    pub fn bool(&mut self) -> bool {
        self.next_u64() & 1 == 1
    }
    pub fn pick<'a, T>(&mut self, xs: &'a [T]) -> &'a T {
        &xs[self.usize(xs.len())]
    }
    pub fn bytes(&mut self, n: usize) -> Vec<u8> {
        let mut v = Vec::with_capacity(n);
        while v.len() < n {
            let x = self.next_u64().to_le_bytes();
            let take = (n - v.len()).min(8);
            v.extend_from_slice(&x[..take]);
        }
        v
    }
    /// weighted choice: returns index
    pub fn weighted(&mut self, w: &[u32]) -> usize {
        let total: u64 = w.iter().map(|&x| x as u64).sum();
        let mut r = self.below(total.max(1));
        for (i, &x) in w.iter().enumerate() {
            if r < x as u64 {
                return i;
            }
            r -= x as u64;
        }
        w.len() - 1
    }
    pub fn fork(&mut self) -> Rng {
        Rng::new(self.next_u64())
    }
}

/// FNV-1a 64 over bytes; used for log / trace hashes (never for decisions).
#[derive(Clone)]
pub struct Hasher64(pub u64);
impl Default for Hasher64 {
    fn default() -> Self {
        Hasher64(0xcbf29ce484222325)
    }
}
impl Hasher64 {
    pub fn new() -> Self {
        Self::default()
    }
    pub fn bytes(&mut self, b: &[u8]) {
        for x in b {
            self.0 ^= *x as u64;
            self.0 = self.0.wrapping_mul(0x100000001b3);
        }
    }
    pub fn u64(&mut self, v: u64) {
        self.bytes(&v.to_le_bytes());
    }
    pub fn str(&mut self, s: &str) {
        self.bytes(s.as_bytes());
        self.bytes(&[0xff]);
    }
    pub fn finish(&self) -> u64 {
        mix64(self.0)
    }
}
