//! S-FRAG oracles: structure (C02), no-trace (C05), conservation (C10),
//! timeline (C11) over write/flush/query interleavings of a FragmentedMuxer.

use crate::case::*;
use crate::checks::RunStats;
use crate::exec::{self, FragExec, FragRes, Res};
use crate::oracle::{normalise, v, Violation};
use crate::reader::{self, Fragment};
use crate::rng::Hasher64;

pub fn trace_hash_frag(ex: &FragExec) -> u64 {
    let mut h = Hasher64::new();
    h.str(&ex.build.short());
    for o in &ex.ops {
        match o {
            FragRes::Flushed(Some(b)) => {
                h.str("seg");
                h.bytes(b);
            }
            FragRes::Init(b) => {
                h.str("init");
                h.bytes(b);
            }
            o => h.str(&format!("{:?}", o)),
        }
    }
    h.finish()
}

fn bucket(n: usize) -> u8 {
    match n {
        0 => 0,
        1 => 1,
        2 => 2,
        3..=5 => 3,
        6..=12 => 4,
        _ => 5,
    }
}

pub fn abstract_frag(case: &FragCase, ex: &FragExec, st: &mut RunStats) -> u64 {
    let mut h = Hasher64::new();
    h.str(case.cfg.codec.name());
    h.u64(case.cfg.via_builder as u64);
    let mut pending = 0usize;
    let mut emitted = 0usize;
    let mut prev = 0u64;
    for (i, op) in case.ops.iter().enumerate() {
        let oc = match ex.ops.get(i) {
            Some(FragRes::WriteOk) => "ok",
            Some(FragRes::WriteErr { .. }) | Some(FragRes::WriteErrOther { .. }) => "rejected",
            Some(FragRes::Flushed(Some(_))) => "segment",
            Some(FragRes::Flushed(None)) => "none",
            Some(FragRes::Ready(true)) => "ready",
            Some(FragRes::Ready(false)) => "not-ready",
            Some(FragRes::DurationMs(_)) => "ms",
            Some(FragRes::Init(_)) => "init",
            Some(FragRes::Panic { .. }) => "panic",
            _ => "gone",
        };
        match (op, oc) {
            (FragOp::Write { .. }, "ok") => pending += 1,
            (FragOp::Flush, "segment") => {
                pending = 0;
                emitted += 1;
            }
            _ => {}
        }
        if i < 40 {
            h.str(op.kind());
            h.str(oc);
            if let FragOp::Write { data, pts, dts, .. } = op {
                h.u64(bucket(data.0.len()) as u64);
                h.u64((pts != dts) as u64);
            }
        }
        let mut s = Hasher64::new();
        s.u64(bucket(pending) as u64);
        s.u64(bucket(emitted) as u64);
        let sv = s.finish();
        st.states.push(sv);
        let mut t = Hasher64::new();
        t.u64(prev);
        t.str(op.kind());
        t.str(oc);
        t.u64(sv);
        st.transitions.push(t.finish());
        prev = sv;
    }
    h.finish()
}

pub fn frag_panics(prop: &'static str, case: &FragCase, ex: &FragExec) -> Vec<Violation> {
    let mut out = Vec::new();
    if let Res::Panic { msg, loc } = &ex.build {
        out.push(v(prop, "panic", format!("frag-build:{}", normalise(msg)), format!("fragmented muxer construction panicked: {} at {}", msg, loc)));
    }
    for (i, o) in ex.ops.iter().enumerate() {
        if let FragRes::Panic { msg, loc } = o {
            out.push(v(prop, "panic", format!("frag-{}:{}", case.ops[i].kind(), normalise(msg)), format!("fragmented op {} ({}) panicked: {} at {}", i, case.ops[i].kind(), msg, loc)));
            break;
        }
    }
    out
}

pub struct ParsedSeg {
    pub frag: Fragment,
    pub bytes_at: usize,
}

/// trex defaults (duration, size, flags) of the init segment a fresh muxer of this configuration returns.
pub fn trex_of(cfg: &FragCfg) -> Option<(u32, u32, u32)> {
    let probe = FragCase { cfg: cfg.clone(), ops: vec![FragOp::Init] };
    let ex = exec::run_frag(&probe);
    let b = match ex.ops.first() {
        Some(FragRes::Init(b)) => b.clone(),
        _ => return None,
    };
    let tree = reader::parse_tree(&b).ok()?;
    let mut probs = Vec::new();
    let m = reader::decode_movie(&b, &tree, &mut probs);
    m.trex_defaults.first().map(|t| (t.1, t.2, t.3))
}

pub fn parse_segment(bytes: &[u8], cfg: &FragCfg) -> Result<(Fragment, Vec<String>), String> {
    let tree = reader::parse_tree(bytes).map_err(|e| e.to_string())?;
    let mut probs = Vec::new();
    match reader::decode_fragment(bytes, &tree, &mut probs) {
        Some(mut f) => {
            if f.unresolved() {
                // rare path: the run leaves something to the init segment's trex defaults
                f.resolve(trex_of(cfg));
            }
            Ok((f, probs))
        }
        None => Err(format!("not a media segment: {:?}", probs)),
    }
}

// ---------------------------------------------------------------- C02 (fragmented part)

pub fn c02_eval_frag(case: &FragCase, st: &mut RunStats) -> Vec<Violation> {
    let ex = exec::run_frag(case);
    st.trace_hash = trace_hash_frag(&ex);
    let mut out = frag_panics("C02", case, &ex);
    let mut emitted = false;
    for (i, o) in ex.ops.iter().enumerate() {
        match o {
            FragRes::Init(b) => {
                emitted = true;
                match reader::parse_tree(b) {
                    Err(e) => {
                        out.push(v("C02", "tiling", format!("init:{}", normalise(&format!("{} in {}", e.msg, e.path))), format!("init segment (op {}): {}", i, e)));
                        return out;
                    }
                    Ok(tree) => {
                        let mut probs = Vec::new();
                        reader::check_moov_structure(b, &tree, 1, true, &mut probs);
                        let m = reader::decode_movie(b, &tree, &mut probs);
                        if m.trex_track_ids.len() != 1 || m.tracks.len() != 1 || m.trex_track_ids[0] != m.tracks[0].track_id {
                            probs.push(format!("trex track ids {:?} do not match the track id {:?}", m.trex_track_ids, m.tracks.iter().map(|t| t.track_id).collect::<Vec<_>>()));
                        }
                        for t in &m.tracks {
                            if !t.samples.is_empty() || t.stsz_count != 0 {
                                probs.push("init segment sample tables are not empty".into());
                            }
                            if t.stsd_entry_count != 1 {
                                probs.push(format!("stsd entry count {}", t.stsd_entry_count));
                            }
                        }
                        for p in probs {
                            out.push(v("C02", "structure", format!("init:{}", normalise(&p)), format!("init segment (op {}): {}", i, p)));
                        }
                    }
                }
            }
            FragRes::Flushed(Some(b)) => {
                emitted = true;
                match reader::parse_tree(b) {
                    Err(e) => {
                        out.push(v("C02", "tiling", format!("segment:{}", normalise(&format!("{} in {}", e.msg, e.path))), format!("media segment (op {}): {}", i, e)));
                        return out;
                    }
                    Ok(tree) => {
                        let mut probs = Vec::new();
                        if let Some(mut f) = reader::decode_fragment(b, &tree, &mut probs) {
                            if f.unresolved() {
                                f.resolve(trex_of(&case.cfg));
                            }
                            let total: u64 = f.samples.iter().map(|s| s.size.unwrap_or(0) as u64).sum();
                            if f.samples.iter().any(|s| s.size.is_none()) {
                                probs.push("sample sizes stated neither per sample nor by a tfhd / trex default".into());
                            } else if f.mdat_size as u64 != 8 + total {
                                probs.push(format!("mdat size {} but 8 + sum of sample sizes = {}", f.mdat_size, 8 + total));
                            }
                            if f.track_id != 1 {
                                probs.push(format!("tfhd track id {}", f.track_id));
                            }
                        }
                        for p in probs {
                            out.push(v("C02", "structure", format!("segment:{}", normalise(&p)), format!("media segment (op {}): {}", i, p)));
                        }
                    }
                }
            }
            _ => {}
        }
        if !out.is_empty() {
            return out;
        }
    }
    if emitted {
        st.nontrivial = Some(abstract_frag(case, &ex, st));
    }
    out
}

// ---------------------------------------------------------------- C05 (fragmented part)

pub fn c05_eval_frag(case: &FragCase, st: &mut RunStats) -> Vec<Violation> {
    let ex = exec::run_frag(case);
    st.trace_hash = trace_hash_frag(&ex);
    let mut out = frag_panics("C05", case, &ex);
    if !out.is_empty() || !ex.build.is_ok() {
        return out;
    }
    let rejected: Vec<usize> = ex.ops.iter().enumerate().filter(|(_, o)| matches!(o, FragRes::WriteErr { .. } | FragRes::WriteErrOther { .. })).map(|(i, _)| i).collect();
    if rejected.is_empty() {
        return out;
    }
    let mut c2 = case.clone();
    let mut keep = Vec::new();
    c2.ops = case
        .ops
        .iter()
        .enumerate()
        .filter(|(i, _)| !rejected.contains(i))
        .map(|(i, o)| {
            keep.push(i);
            o.clone()
        })
        .collect();
    let ex2 = exec::run_frag(&c2);
    st.evaluations = 2;
    for (j, &i) in keep.iter().enumerate() {
        if ex.ops[i] != ex2.ops[j] {
            let what = match (&ex.ops[i], &ex2.ops[j]) {
                (FragRes::Flushed(Some(_)), FragRes::Flushed(Some(_))) => "segment-bytes",
                (FragRes::Init(_), FragRes::Init(_)) => "init-bytes",
                _ => "result",
            };
            out.push(v(
                "C05",
                "frag-later-result-differs",
                format!("{}:{}", case.ops[i].kind(), what),
                format!("fragmented op {} ({}) gives a different {} when the rejected writes at ops {:?} are removed from the history", i, case.ops[i].kind(), what, rejected),
            ));
            return out;
        }
    }
    st.nontrivial = Some(abstract_frag(case, &ex, st));
    out
}

// ---------------------------------------------------------------- C10 / C11

#[derive(Clone, Debug)]
struct QSample {
    pts: u64,
    dts: u64,
    data: Vec<u8>,
    sync: bool,
    op: usize,
}

pub fn c10_eval(case: &FragCase, st: &mut RunStats) -> Vec<Violation> {
    let ex = exec::run_frag(case);
    st.trace_hash = trace_hash_frag(&ex);
    let mut out = frag_panics("C10", case, &ex);
    if !out.is_empty() || !ex.build.is_ok() {
        return out;
    }
    let mut queue: Vec<QSample> = Vec::new();
    let mut next_seq: u32 = 1;
    let mut last_dts: Option<u64> = None;
    let mut segments = 0;
    for (i, op) in case.ops.iter().enumerate() {
        let r = &ex.ops[i];
        match op {
            FragOp::Write { pts, dts, data, sync } => {
                let must_reject = last_dts.map(|l| *dts < l).unwrap_or(false);
                match r {
                    FragRes::WriteOk => {
                        if must_reject {
                            out.push(v("C10", "write-accepted", "lower-decode-time", format!("op {}: write with decode time {} below the previously accepted {} was accepted", i, dts, last_dts.unwrap())));
                            return out;
                        }
                        queue.push(QSample { pts: *pts, dts: *dts, data: data.0.clone(), sync: *sync, op: i });
                        last_dts = Some(*dts);
                    }
                    FragRes::WriteErr { prev, curr, .. } => {
                        if !must_reject {
                            out.push(v("C10", "write-rejected", "non-decreasing-decode-time", format!("op {}: write with decode time {} (previous accepted {:?}) was rejected", i, dts, last_dts)));
                            return out;
                        }
                        if Some(*prev) != last_dts || *curr != *dts {
                            out.push(v("C10", "write-error-payload", "prev-curr", format!("op {}: rejection reports prev={} curr={} but previous accepted decode time is {:?} and the call's is {}", i, prev, curr, last_dts, dts)));
                            return out;
                        }
                    }
                    FragRes::WriteErrOther { debug, .. } => {
                        // a rejection for another reason: legitimate exactly where C16 demands an error instead of a
                        // wrapped field (composition offset outside i32, decode-time gap inside the pending fragment
                        // outside u32); the "iff" of C10 and C16 conflict there, so neither answer is judged
                        let cts = *pts as i128 - *dts as i128;
                        let gap = queue.last().map(|q| *dts as i128 - q.dts as i128).unwrap_or(0);
                        let field_overflow = cts > i32::MAX as i128 || cts < i32::MIN as i128 || gap > u32::MAX as i128;
                        if !must_reject && !field_overflow {
                            out.push(v("C10", "write-rejected", "non-decreasing-decode-time", format!("op {}: write with decode time {} (previous accepted {:?}) was rejected with {}", i, dts, last_dts, debug)));
                            return out;
                        }
                    }
                    _ => {}
                }
            }
            FragOp::Flush => match r {
                FragRes::Flushed(None) => {
                    if !queue.is_empty() {
                        out.push(v("C10", "samples-lost", "flush-returned-none", format!("op {}: flush returned no segment although {} accepted samples were queued (first queued at op {})", i, queue.len(), queue[0].op)));
                        return out;
                    }
                }
                FragRes::Flushed(Some(b)) => {
                    if queue.is_empty() {
                        out.push(v("C10", "segment-from-nothing", "", format!("op {}: flush produced a {}-byte segment although nothing was queued", i, b.len())));
                        return out;
                    }
                    let (f, _probs) = match parse_segment(b, &case.cfg) {
                        Ok(x) => x,
                        Err(e) => {
                            out.push(v("C10", "segment-unreadable", normalise(&e), format!("op {}: {}", i, e)));
                            return out;
                        }
                    };
                    segments += 1;
                    if f.sequence != next_seq {
                        out.push(v("C10", "sequence-number", if f.sequence > next_seq { "skipped" } else { "repeated" }, format!("op {}: segment carries sequence number {}, expected {}", i, f.sequence, next_seq)));
                        return out;
                    }
                    next_seq += 1;
                    if f.samples.len() != queue.len() {
                        out.push(v("C10", "sample-count", if f.samples.len() < queue.len() { "lost" } else { "duplicated" }, format!("op {}: segment describes {} samples, {} were queued", i, f.samples.len(), queue.len())));
                        return out;
                    }
                    let doff = match f.data_offset {
                        Some(d) => d as i64,
                        None => {
                            out.push(v("C10", "data-offset", "absent", format!("op {}: run carries no data offset", i)));
                            return out;
                        }
                    };
                    let base = f.base_data_offset.map(|b| b as i64).unwrap_or(f.moof_start as i64);
                    let mut pos = base + doff;
                    for (k, (fs, q)) in f.samples.iter().zip(queue.iter()).enumerate() {
                        let sz = fs.size.unwrap_or(0) as usize;
                        if sz != q.data.len() {
                            out.push(v("C10", "sample-size", "", format!("op {}: sample {} has size {} in the run, {} bytes were written (op {})", i, k, sz, q.data.len(), q.op)));
                            return out;
                        }
                        if pos < 0 || pos as usize + sz > b.len() {
                            out.push(v("C10", "sample-location", "outside-segment", format!("op {}: sample {} located at {} (+{}) outside the {}-byte segment", i, k, pos, sz, b.len())));
                            return out;
                        }
                        let got = &b[pos as usize..pos as usize + sz];
                        if got != &q.data[..] {
                            let other = queue.iter().position(|o| o.data[..] == *got);
                            out.push(v(
                                "C10",
                                "sample-bytes",
                                if other.is_some() { "resolves-to-other-sample" } else { "bytes-differ" },
                                format!("op {}: sample {} located through data offset {} does not hold the bytes written at op {}{}", i, k, doff, q.op, other.map(|j| format!(" (it holds sample {})", j)).unwrap_or_default()),
                            ));
                            return out;
                        }
                        if (pos as usize) < f.mdat_start + 8 || pos as usize + sz > f.mdat_start + f.mdat_size {
                            out.push(v("C10", "sample-location", "outside-mdat", format!("op {}: sample {} at {} is not inside the media-data payload", i, k, pos)));
                            return out;
                        }
                        pos += sz as i64;
                    }
                    if pos as usize != f.mdat_start + f.mdat_size {
                        out.push(v("C10", "sample-location", "mdat-not-covered", format!("op {}: samples end at {} but the media-data box ends at {}", i, pos, f.mdat_start + f.mdat_size)));
                        return out;
                    }
                    queue.clear();
                }
                _ => {}
            },
            _ => {}
        }
    }
    // purity of the queries: same history without them yields identical results
    if case.ops.iter().any(|o| o.is_query()) {
        let mut c2 = case.clone();
        let mut keep = Vec::new();
        c2.ops = case
            .ops
            .iter()
            .enumerate()
            .filter(|(_, o)| !o.is_query())
            .map(|(i, o)| {
                keep.push(i);
                o.clone()
            })
            .collect();
        let ex2 = exec::run_frag(&c2);
        st.evaluations = 2;
        for (j, &i) in keep.iter().enumerate() {
            if ex.ops[i] != ex2.ops[j] {
                let q: Vec<&str> = case.ops.iter().filter(|o| o.is_query()).map(|o| o.kind()).collect();
                let mut kinds = q.clone();
                kinds.sort();
                kinds.dedup();
                out.push(v("C10", "query-not-pure", kinds.join("+"), format!("op {} ({}) gives a different result when the queries {:?} are removed from the history", i, case.ops[i].kind(), q)));
                return out;
            }
        }
    }
    if segments > 0 {
        st.nontrivial = Some(abstract_frag(case, &ex, st));
    }
    out
}

pub fn c11_eval(case: &FragCase, st: &mut RunStats) -> Vec<Violation> {
    let ex = exec::run_frag(case);
    st.trace_hash = trace_hash_frag(&ex);
    let mut out = frag_panics("C11", case, &ex);
    if !out.is_empty() || !ex.build.is_ok() {
        return out;
    }
    let mut queue: Vec<QSample> = Vec::new();
    // "no matter when": the reference is what a fresh muxer of the same configuration returns at once
    let fresh_init: Option<Vec<u8>> = {
        let probe = FragCase { cfg: case.cfg.clone(), ops: vec![FragOp::Init] };
        match exec::run_frag(&probe).ops.first() {
            Some(FragRes::Init(b)) => Some(b.clone()),
            _ => None,
        }
    };
    let mut init: Option<(usize, Vec<u8>)> = fresh_init.map(|b| (usize::MAX, b));
    // per emitted segment: (tfdt, first dts, last dts, sum of durations before last, n)
    struct Seg {
        tfdt: u64,
        first: u64,
        last: u64,
        before_last: u64,
        n: usize,
        op: usize,
    }
    let mut segs: Vec<Seg> = Vec::new();
    let mut all_dts: Vec<u64> = Vec::new();
    for (i, op) in case.ops.iter().enumerate() {
        match (op, &ex.ops[i]) {
            (FragOp::Write { pts, dts, data, sync }, FragRes::WriteOk) => {
                queue.push(QSample { pts: *pts, dts: *dts, data: data.0.clone(), sync: *sync, op: i });
                all_dts.push(*dts);
            }
            (FragOp::Init, FragRes::Init(b)) => match &init {
                None => init = Some((i, b.clone())),
                Some((j, first)) => {
                    if first != b {
                        let whence = if *j == usize::MAX { "by a fresh muxer of the same configuration before any write".to_string() } else { format!("at op {}", j) };
                        out.push(v("C11", "init-segment-changed", if *j == usize::MAX { "depends-on-history" } else { "between-requests" }, format!("init segment requested at op {} differs from the one returned {} ({} vs {} bytes)", i, whence, b.len(), first.len())));
                        return out;
                    }
                }
            },
            (FragOp::Flush, FragRes::Flushed(Some(b))) => {
                let (f, _) = match parse_segment(b, &case.cfg) {
                    Ok(x) => x,
                    Err(_) => return out, // C02/C10's business
                };
                if f.samples.len() != queue.len() {
                    return out;
                }
                let n = queue.len();
                let wide = |a: u64, b: u64| a as i128 - b as i128;
                for k in 0..n {
                    let fs = &f.samples[k];
                    if k + 1 < n {
                        let want = wide(queue[k + 1].dts, queue[k].dts);
                        if fs.duration.map(|d| d as i128) != Some(want) {
                            out.push(v("C11", "sample-duration", if want > u32::MAX as i128 { "wrapped" } else { "value" }, format!("op {}: sample {} duration {:?} but next decode time minus this one is {}", i, k, fs.duration, want)));
                            return out;
                        }
                    }
                    let want_cts = wide(queue[k].pts, queue[k].dts);
                    if fs.cts.map(|c| c as i128) != Some(want_cts) {
                        out.push(v("C11", "composition-offset", if want_cts.abs() > i32::MAX as i128 { "wrapped" } else { "value" }, format!("op {}: sample {} composition offset {:?} but pts-dts = {}", i, k, fs.cts, want_cts)));
                        return out;
                    }
                    match fs.flags {
                        Some(fl) => {
                            let non_sync = fl & 0x0001_0000 != 0;
                            if non_sync == queue[k].sync {
                                out.push(v("C11", "sync-flag", "", format!("op {}: sample {} non-sync flag {} but submitted sync flag {}", i, k, non_sync, queue[k].sync)));
                                return out;
                            }
                        }
                        None => {
                            out.push(v("C11", "sync-flag", "absent", format!("op {}: sample {} has no flags: neither per sample, nor first-sample flags, nor a tfhd / trex default", i, k)));
                            return out;
                        }
                    }
                }
                let before_last: u64 = f.samples.iter().take(n.saturating_sub(1)).map(|s| s.duration.unwrap_or(0) as u64).sum();
                segs.push(Seg { tfdt: f.base_decode_time, first: queue[0].dts, last: queue[n - 1].dts, before_last, n, op: i });
                queue.clear();
            }
            _ => {}
        }
    }
    // across segments
    for w in segs.windows(2) {
        let (a, b) = (&w[0], &w[1]);
        if b.tfdt < a.tfdt {
            out.push(v("C11", "base-time-backwards", "", format!("segment flushed at op {} has base decode time {} after a segment with {} (op {})", b.op, b.tfdt, a.tfdt, a.op)));
            return out;
        }
        let prev_last = a.tfdt as u128 + a.before_last as u128;
        if (b.tfdt as u128) < prev_last {
            out.push(v("C11", "base-time-before-previous-last-sample", "", format!("segment at op {}: base decode time {} is earlier than the previous segment's last sample decode time {}", b.op, b.tfdt, prev_last)));
            return out;
        }
    }
    // constant interval clause
    if all_dts.len() >= 2 && segs.iter().all(|s| s.n >= 2) && !segs.is_empty() {
        let d = all_dts[1].wrapping_sub(all_dts[0]);
        let constant = d > 0 && all_dts.windows(2).all(|w| w[1].wrapping_sub(w[0]) == d && w[1] > w[0]);
        if constant {
            let c0 = segs[0].tfdt as i128 - segs[0].first as i128;
            for s in &segs {
                let c = s.tfdt as i128 - s.first as i128;
                if c != c0 {
                    out.push(v(
                        "C11",
                        "base-time-not-first-dts-minus-constant",
                        "",
                        format!("constant interval {}: segment at op {} has base decode time {} for first decode time {} (offset {}), the first segment has offset {}", d, s.op, s.tfdt, s.first, c, c0),
                    ));
                    return out;
                }
            }
            st.count("constant_interval_streams", 1);
        }
    }
    let _ = segs.iter().map(|s| s.last).count();
    if !segs.is_empty() {
        st.nontrivial = Some(abstract_frag(case, &ex, st));
    }
    out
}

// ---------------------------------------------------------------- C16 (fragmented part)

pub fn c16_eval_frag(case: &FragCase, st: &mut RunStats) -> Vec<Violation> {
    let ex = exec::run_frag(case);
    st.trace_hash = trace_hash_frag(&ex);
    let mut out = frag_panics("C16", case, &ex);
    if !out.is_empty() || !ex.build.is_ok() {
        return out;
    }
    let mut queue: Vec<QSample> = Vec::new();
    let mut any = false;
    let mut flushed_ticks: i128 = 0;
    for (i, op) in case.ops.iter().enumerate() {
        match (op, &ex.ops[i]) {
            (FragOp::Write { pts, dts, data, sync }, FragRes::WriteOk) => queue.push(QSample { pts: *pts, dts: *dts, data: data.0.clone(), sync: *sync, op: i }),
            (FragOp::Init, FragRes::Init(b)) => {
                any = true;
                match reader::parse_tree(b) {
                    Err(e) => {
                        out.push(v("C16", "box-size", format!("init:{}", normalise(&e.msg)), format!("init segment: {}", e)));
                        return out;
                    }
                    Ok(tree) => {
                        let mut probs = Vec::new();
                        let m = reader::decode_movie(b, &tree, &mut probs);
                        if let Some(d) = m.mehd_duration {
                            // a declared overall duration must be what the segments emitted so far add up to
                            if d as i128 != flushed_ticks {
                                out.push(v("C16", "movie-duration", if flushed_ticks > u32::MAX as i128 { "init:mehd:wrapped" } else { "init:mehd:value" }, format!("init segment requested at op {} declares fragment_duration {} but the segments flushed so far describe {} ticks", i, d, flushed_ticks)));
                                return out;
                            }
                        }
                        if let Some(t) = m.tracks.first() {
                            if t.width.map(|w| w as u32) != Some(case.cfg.width) || t.height.map(|h| h as u32) != Some(case.cfg.height) {
                                out.push(v("C16", "dimensions", if case.cfg.width > 65535 || case.cfg.height > 65535 { "init-sample-entry:over-65535" } else { "init-sample-entry:value" }, format!("init segment sample entry says {:?}x{:?}, configured {}x{}", t.width, t.height, case.cfg.width, case.cfg.height)));
                                return out;
                            }
                            // parameter-set lengths inside avcC / hvcC must be exact
                            let entry = &t.stsd_entry;
                            let want: Vec<usize> = match case.cfg.codec {
                                VCodec::H264 => vec![case.cfg.sps.as_ref().map(|h| h.0.len()).unwrap_or(0), case.cfg.pps.as_ref().map(|h| h.0.len()).unwrap_or(0)],
                                VCodec::H265 => vec![case.cfg.vps.as_ref().map(|h| h.0.len()).unwrap_or(0), case.cfg.sps.as_ref().map(|h| h.0.len()).unwrap_or(0), case.cfg.pps.as_ref().map(|h| h.0.len()).unwrap_or(0)],
                                _ => vec![],
                            };
                            if want.iter().any(|l| *l > u16::MAX as usize) {
                                // a 16-bit length field cannot hold it: some call must have failed, but the init segment exists
                                out.push(v("C16", "parameter-set-length", "init:set-over-65535-bytes", format!("init segment ({} byte sample entry) emitted although a parameter set of {:?} bytes does not fit its 16-bit length field", entry.len(), want)));
                                return out;
                            }
                            // ... and the length fields that are written must tile the record, whatever form the sets were
                            // given in (with or without a start code, trailing zeros)
                            let kids = crate::oracle::child_boxes(entry, 78);
                            if let Some((_, c)) = kids.iter().find(|(t, _)| t == b"avcC") {
                                if !crate::oracle::avcc_tiles(c) {
                                    out.push(v("C16", "parameter-set-length", "init:avcC:does-not-tile", format!("init segment avcC ({} bytes): the declared SPS/PPS lengths do not add up to the record (sets given: {:?} bytes)", c.len(), want)));
                                    return out;
                                }
                            }
                            if let Some((_, c)) = kids.iter().find(|(t, _)| t == b"hvcC") {
                                if !crate::oracle::hvcc_tiles(c) {
                                    out.push(v("C16", "parameter-set-length", "init:hvcC:does-not-tile", format!("init segment hvcC ({} bytes): the declared parameter-set lengths do not add up to the record (sets given: {:?} bytes)", c.len(), want)));
                                    return out;
                                }
                            }
                        }
                    }
                }
            }
            (FragOp::Flush, FragRes::Flushed(Some(b))) => {
                any = true;
                let (f, _) = match parse_segment(b, &case.cfg) {
                    Ok(x) => x,
                    Err(e) => {
                        out.push(v("C16", "box-size", format!("segment:{}", normalise(&e)), format!("media segment: {}", e)));
                        return out;
                    }
                };
                if f.samples.len() != queue.len() {
                    return out;
                }
                let n = queue.len();
                for k in 0..n {
                    if k + 1 < n {
                        let want = queue[k + 1].dts as i128 - queue[k].dts as i128;
                        if f.samples[k].duration.map(|d| d as i128) != Some(want) {
                            out.push(v("C16", "sample-duration", if want > u32::MAX as i128 { "frag:wrapped" } else { "frag:value" }, format!("op {}: trun duration {:?} of sample {} but the decode-time difference is {}", i, f.samples[k].duration, k, want)));
                            return out;
                        }
                    }
                    let want = queue[k].pts as i128 - queue[k].dts as i128;
                    if f.samples[k].cts.map(|c| c as i128) != Some(want) {
                        out.push(v("C16", "composition-offset", if want.abs() > i32::MAX as i128 { "frag:wrapped" } else { "frag:value" }, format!("op {}: trun composition offset {:?} of sample {} but pts-dts = {}", i, f.samples[k].cts, k, want)));
                        return out;
                    }
                    if f.samples[k].size.map(|s| s as usize) != Some(queue[k].data.len()) {
                        out.push(v("C16", "sample-size", "frag", format!("op {}: trun size {:?} of sample {}, {} bytes written", i, f.samples[k].size, k, queue[k].data.len())));
                        return out;
                    }
                }
                if f.base_decode_time as i128 != queue[0].dts as i128 {
                    // the exact value is C11's business; here only truncation matters
                    if (f.base_decode_time as i128 - queue[0].dts as i128).abs() >= (1i128 << 32) {
                        out.push(v("C16", "base-decode-time", "frag:wrapped", format!("op {}: tfdt {} for first decode time {}", i, f.base_decode_time, queue[0].dts)));
                        return out;
                    }
                }
                let want_off = f.moof_size as i128 + 8;
                if f.data_offset.map(|d| d as i128) != Some(want_off) {
                    out.push(v("C16", "data-offset", "frag", format!("op {}: trun data offset {:?}, moof size + 8 = {}", i, f.data_offset, want_off)));
                    return out;
                }
                flushed_ticks += f.samples.iter().map(|x| x.duration.unwrap_or(0) as i128).sum::<i128>();
                queue.clear();
            }
            _ => {}
        }
    }
    if any {
        st.nontrivial = Some(abstract_frag(case, &ex, st));
    }
    out
}
