//! `check` — deterministic simulation with fault injection for muxide.
//!
//!   check <id> quick|thorough            run a property's batch (driver)
//!   check <id> --replay <file>           re-execute one recorded case
//!   check --worker ...                   (internal) worker process
//!   check --list                         list registered checks

mod big;
mod case;
mod checks;
mod cli;
mod conc;
mod driver;
mod exec;
mod fault;
mod frag;
mod hooks;
mod frames;
mod gen;
mod model;
mod oracle;
mod reader;
mod rng;
mod sink;
mod stateless;

use checks::Tier;

fn main() {
    let args: Vec<String> = std::env::args().collect();
    let code = real_main(&args);
    std::process::exit(code);
}

fn opt<'a>(args: &'a [String], name: &str) -> Option<&'a str> {
    args.iter().find_map(|a| a.strip_prefix(name).and_then(|r| r.strip_prefix('=')))
}

fn real_main(args: &[String]) -> i32 {
    if args.len() >= 2 && args[1] == "--list" {
        for d in checks::ALL {
            println!("{}", d.id);
        }
        return 0;
    }
    if args.len() >= 8 && args[1] == "--worker" {
        let tier = match Tier::parse(&args[3]) {
            Some(t) => t,
            None => return 2,
        };
        // address-space cap: a runaway allocation kills the worker, not the machine
        let cap_gb: u64 = opt(args, "--rlimit-gb").and_then(|s| s.parse().ok()).unwrap_or(2);
        driver::set_rlimit_as(cap_gb << 30);
        let a = driver::WorkerArgs {
            id: args[2].clone(),
            tier,
            seed: args[4].parse().unwrap_or(1),
            start: args[5].parse().unwrap_or(0),
            stride: args[6].parse().unwrap_or(1),
            heartbeat: Some(args[7].clone().into()),
            only_scenario: opt(args, "--only-scenario").map(|s| s.to_string()),
            only_run: opt(args, "--only-run").and_then(|s| s.parse().ok()),
            only_first: opt(args, "--only-first").and_then(|s| s.parse().ok()),
            skip_slow: opt(args, "--skip-slow").is_some(),
            resume: opt(args, "--resume").and_then(|s| s.split_once(',').and_then(|(a, b)| b.parse().ok().map(|n| (a.to_string(), n)))),
            trace_first: opt(args, "--trace-first").and_then(|s| s.parse().ok()).unwrap_or(0),
            watchdog_secs: opt(args, "--watchdog").and_then(|s| s.parse().ok()).unwrap_or(20),
        };
        return driver::worker_main(a);
    }
    if args.len() >= 5 && args[2] == "--gen" {
        // check <id> --gen <scenario> <run> [tier]: print the case the generator draws for that run
        let def = match checks::find(&args[1]) {
            Some(d) => d,
            None => return 2,
        };
        let seed: u64 = std::env::var("VERIF_SEED").ok().and_then(|s| s.parse().ok()).unwrap_or(1);
        let run: u64 = args[4].parse().unwrap_or(0);
        let tier = args.get(5).and_then(|s| Tier::parse(s)).unwrap_or(Tier::Quick);
        let mut rng = rng::Rng::for_run(seed, &format!("{}:{}", def.id, args[3]), run);
        let case = (def.gen)(&args[3], &mut rng, tier, run);
        println!("{}", serde_json::to_string(&case).unwrap());
        return 0;
    }
    if args.len() >= 4 && args[2] == "--replay" {
        return driver::replay_main(&args[1], &args[3]);
    }
    if args.len() >= 3 && args[2] == "determinism" {
        let n = args.get(3).and_then(|s| s.parse().ok()).unwrap_or(2000);
        return driver::determinism_main(&args[1], n);
    }
    if args.len() >= 3 {
        if let Some(t) = Tier::parse(&args[2]) {
            return driver::driver_main(&args[1], t);
        }
    }
    eprintln!("usage: check <id> quick|thorough | check <id> --replay <file> | check --list");
    2
}
