//! Explicit, PRNG-free description of one simulated run. A case is what the
//! generators produce, what the executors consume, what the minimiser edits and
//! what a replay file contains.

use serde::de::Error as _;
use serde::{Deserialize, Deserializer, Serialize, Serializer};

// ---------------------------------------------------------------- Hex bytes

#[derive(Clone, PartialEq, Eq, Default)]
pub struct Hex(pub Vec<u8>);

impl std::fmt::Debug for Hex {
    fn fmt(&self, f: &mut std::fmt::Formatter<'_>) -> std::fmt::Result {
        write!(f, "Hex[{}]", self.0.len())
    }
}

pub fn to_hex(b: &[u8]) -> String {
    const T: &[u8; 16] = b"0123456789abcdef";
    let mut s = String::with_capacity(b.len() * 2);
    for x in b {
        s.push(T[(x >> 4) as usize] as char);
        s.push(T[(x & 15) as usize] as char);
    }
    s
}

pub fn from_hex(s: &str) -> Option<Vec<u8>> {
    let b = s.as_bytes();
    if b.len() % 2 != 0 {
        return None;
    }
    fn v(c: u8) -> Option<u8> {
        match c {
            b'0'..=b'9' => Some(c - b'0'),
            b'a'..=b'f' => Some(c - b'a' + 10),
            b'A'..=b'F' => Some(c - b'A' + 10),
            _ => None,
        }
    }
    let mut out = Vec::with_capacity(b.len() / 2);
    for i in (0..b.len()).step_by(2) {
        out.push(v(b[i])? << 4 | v(b[i + 1])?);
    }
    Some(out)
}

impl Serialize for Hex {
    fn serialize<S: Serializer>(&self, s: S) -> Result<S::Ok, S::Error> {
        // long runs of one byte are compressed as "<hex>*<count>" segments joined by '+'
        s.serialize_str(&compress_hex(&self.0))
    }
}
impl<'de> Deserialize<'de> for Hex {
    fn deserialize<D: Deserializer<'de>>(d: D) -> Result<Self, D::Error> {
        let s = String::deserialize(d)?;
        decompress_hex(&s).map(Hex).ok_or_else(|| D::Error::custom("bad hex"))
    }
}

fn compress_hex(b: &[u8]) -> String {
    // segments: plain hex, or "xx*N" for N>=16 repeats of byte xx
    let mut out = String::new();
    let mut i = 0;
    let mut plain_start = 0;
    while i < b.len() {
        let mut j = i + 1;
        while j < b.len() && b[j] == b[i] {
            j += 1;
        }
        if j - i >= 16 {
            if plain_start < i {
                if !out.is_empty() {
                    out.push('+');
                }
                out.push_str(&to_hex(&b[plain_start..i]));
            }
            if !out.is_empty() {
                out.push('+');
            }
            out.push_str(&format!("{:02x}*{}", b[i], j - i));
            plain_start = j;
        }
        i = j;
    }
    if plain_start < b.len() {
        if !out.is_empty() {
            out.push('+');
        }
        out.push_str(&to_hex(&b[plain_start..]));
    }
    out
}

fn decompress_hex(s: &str) -> Option<Vec<u8>> {
    let mut out = Vec::new();
    if s.is_empty() {
        return Some(out);
    }
    for seg in s.split('+') {
        if let Some((h, n)) = seg.split_once('*') {
            let v = from_hex(h)?;
            if v.len() != 1 {
                return None;
            }
            let n: usize = n.parse().ok()?;
            out.extend(std::iter::repeat(v[0]).take(n));
        } else {
            out.extend(from_hex(seg)?);
        }
    }
    Some(out)
}

// ---------------------------------------------------------------- f64 that round-trips

#[derive(Clone, Copy, PartialEq)]
pub struct F(pub f64);

impl std::fmt::Debug for F {
    fn fmt(&self, f: &mut std::fmt::Formatter<'_>) -> std::fmt::Result {
        write!(f, "{:?}", self.0)
    }
}

impl Serialize for F {
    fn serialize<S: Serializer>(&self, s: S) -> Result<S::Ok, S::Error> {
        if self.0.is_finite() {
            s.serialize_f64(self.0)
        } else {
            s.serialize_str(&format!("bits:{:016x}", self.0.to_bits()))
        }
    }
}
impl<'de> Deserialize<'de> for F {
    fn deserialize<D: Deserializer<'de>>(d: D) -> Result<Self, D::Error> {
        let v = serde_json::Value::deserialize(d)?;
        match v {
            serde_json::Value::Number(n) => Ok(F(n.as_f64().ok_or_else(|| D::Error::custom("num"))?)),
            serde_json::Value::String(s) => {
                let h = s.strip_prefix("bits:").ok_or_else(|| D::Error::custom("f64 str"))?;
                let b = u64::from_str_radix(h, 16).map_err(|_| D::Error::custom("f64 bits"))?;
                Ok(F(f64::from_bits(b)))
            }
            _ => Err(D::Error::custom("f64")),
        }
    }
}

// ---------------------------------------------------------------- configuration

#[derive(Clone, Copy, Debug, PartialEq, Eq, Serialize, Deserialize, PartialOrd, Ord)]
pub enum VCodec {
    H264,
    H265,
    Av1,
    Vp9,
}
pub const VCODECS: [VCodec; 4] = [VCodec::H264, VCodec::H265, VCodec::Av1, VCodec::Vp9];

impl VCodec {
    pub fn to_lib(self) -> muxide::api::VideoCodec {
        use muxide::api::VideoCodec as V;
        match self {
            VCodec::H264 => V::H264,
            VCodec::H265 => V::H265,
            VCodec::Av1 => V::Av1,
            VCodec::Vp9 => V::Vp9,
        }
    }
    pub fn name(self) -> &'static str {
        match self {
            VCodec::H264 => "h264",
            VCodec::H265 => "h265",
            VCodec::Av1 => "av1",
            VCodec::Vp9 => "vp9",
        }
    }
}

#[derive(Clone, Copy, Debug, PartialEq, Eq, Serialize, Deserialize, PartialOrd, Ord)]
pub enum ACodec {
    AacLc,
    AacMain,
    AacSsr,
    AacLtp,
    AacHe,
    AacHev2,
    Opus,
    /// `AudioCodec::None` passed to `.audio()` — must behave as "no audio call"
    NoneCodec,
}
pub const ACODECS_REAL: [ACodec; 7] = [
    ACodec::AacLc,
    ACodec::AacMain,
    ACodec::AacSsr,
    ACodec::AacLtp,
    ACodec::AacHe,
    ACodec::AacHev2,
    ACodec::Opus,
];

impl ACodec {
    pub fn to_lib(self) -> muxide::api::AudioCodec {
        use muxide::api::{AacProfile as P, AudioCodec as A};
        match self {
            ACodec::AacLc => A::Aac(P::Lc),
            ACodec::AacMain => A::Aac(P::Main),
            ACodec::AacSsr => A::Aac(P::Ssr),
            ACodec::AacLtp => A::Aac(P::Ltp),
            ACodec::AacHe => A::Aac(P::He),
            ACodec::AacHev2 => A::Aac(P::Hev2),
            ACodec::Opus => A::Opus,
            ACodec::NoneCodec => A::None,
        }
    }
    pub fn is_aac(self) -> bool {
        !matches!(self, ACodec::Opus | ACodec::NoneCodec)
    }
    pub fn cli_name(self) -> &'static str {
        match self {
            ACodec::AacLc => "aac-lc",
            ACodec::AacMain => "aac-main",
            ACodec::AacSsr => "aac-ssr",
            ACodec::AacLtp => "aac-ltp",
            ACodec::AacHe => "aac-he",
            ACodec::AacHev2 => "aac-hev2",
            ACodec::Opus => "opus",
            ACodec::NoneCodec => "none",
        }
    }
}

#[derive(Clone, Debug, PartialEq, Serialize, Deserialize)]
pub struct VideoCfg {
    pub codec: VCodec,
    pub width: u32,
    pub height: u32,
    pub fps: F,
    /// use `set_video_track` instead of `video`
    #[serde(default)]
    pub alias: bool,
}

#[derive(Clone, Debug, PartialEq, Serialize, Deserialize)]
pub struct AudioCfg {
    pub codec: ACodec,
    pub rate: u32,
    pub channels: u16,
    #[serde(default)]
    pub alias: bool,
}

#[derive(Clone, Debug, PartialEq, Serialize, Deserialize, Default)]
pub struct MetaCfg {
    pub title: Option<String>,
    pub ctime: Option<u64>,
    pub lang: Option<String>,
    /// 0: `with_metadata(Metadata..)`; 1: `set_create_time` / `set_language` (only if title is None)
    #[serde(default)]
    pub style: u8,
}

#[derive(Clone, Copy, Debug, PartialEq, Eq, Serialize, Deserialize, Default)]
pub enum SinkKind {
    #[default]
    Sim,
    VecU8,
    Cursor,
    MutRefVec,
    BoxDyn,
    BufWriterSim,
}

#[derive(Clone, Debug, PartialEq, Serialize, Deserialize)]
pub struct ProgCfg {
    pub video: Option<VideoCfg>,
    pub audio: Option<AudioCfg>,
    /// earlier builder calls that the later ones above replace (a setter: the last call wins)
    #[serde(default)]
    pub video_prior: Option<VideoCfg>,
    #[serde(default)]
    pub audio_prior: Option<AudioCfg>,
    /// None = builder default (on)
    pub fast_start: Option<bool>,
    pub meta: Option<MetaCfg>,
    #[serde(default)]
    pub sink: SinkKind,
}

impl ProgCfg {
    pub fn fast_start_effective(&self) -> bool {
        self.fast_start.unwrap_or(true)
    }
    /// audio track that will really exist
    pub fn audio_effective(&self) -> Option<&AudioCfg> {
        self.audio.as_ref().filter(|a| a.codec != ACodec::NoneCodec)
    }
}

// ---------------------------------------------------------------- operations

#[derive(Clone, Copy, Debug, PartialEq, Eq, Serialize, Deserialize)]
pub enum FinishKind {
    InPlace,
    InPlaceStats,
    Consume,
    ConsumeStats,
    Flush,
}
pub const FINISH_KINDS: [FinishKind; 5] = [
    FinishKind::InPlace,
    FinishKind::InPlaceStats,
    FinishKind::Consume,
    FinishKind::ConsumeStats,
    FinishKind::Flush,
];
impl FinishKind {
    pub fn consuming(self) -> bool {
        matches!(self, FinishKind::Consume | FinishKind::ConsumeStats | FinishKind::Flush)
    }
    pub fn with_stats(self) -> bool {
        matches!(self, FinishKind::InPlaceStats | FinishKind::ConsumeStats)
    }
}

#[derive(Clone, Debug, PartialEq, Serialize, Deserialize)]
pub enum Op {
    /// `cc`: the generator built this frame constructively valid with its codec configuration
    /// (lets the contract model say MustAccept for a first frame; never set by hand-edited replays)
    Video { pts: F, data: Hex, key: bool, #[serde(default)] cc: bool },
    VideoDts { pts: F, dts: F, data: Hex, key: bool, #[serde(default)] cc: bool },
    Audio { pts: F, data: Hex },
    EncVideo { data: Hex, dur_ms: u32, #[serde(default)] cc: bool },
    EncAudio { data: Hex, samples: u32 },
    Finish(FinishKind),
    /// drop the muxer without finishing
    Drop,
    /// `invariant_ppt::clear_invariant_log()` on the calling thread (C17)
    ClearLog,
    /// `invariant_ppt::get_logged_invariants()` on the calling thread (C17)
    ReadLog,
}

impl Op {
    pub fn kind(&self) -> &'static str {
        match self {
            Op::Video { .. } => "video",
            Op::VideoDts { .. } => "video_dts",
            Op::Audio { .. } => "audio",
            Op::EncVideo { .. } => "enc_video",
            Op::EncAudio { .. } => "enc_audio",
            Op::Finish(_) => "finish",
            Op::Drop => "drop",
            Op::ClearLog => "clear_log",
            Op::ReadLog => "read_log",
        }
    }
    pub fn is_write(&self) -> bool {
        matches!(
            self,
            Op::Video { .. } | Op::VideoDts { .. } | Op::Audio { .. } | Op::EncVideo { .. } | Op::EncAudio { .. }
        )
    }
    pub fn cc(&self) -> bool {
        match self {
            Op::Video { cc, .. } | Op::VideoDts { cc, .. } | Op::EncVideo { cc, .. } => *cc,
            _ => false,
        }
    }
    pub fn clear_cc(&mut self) {
        match self {
            Op::Video { cc, .. } | Op::VideoDts { cc, .. } | Op::EncVideo { cc, .. } => *cc = false,
            _ => {}
        }
    }
    pub fn data(&self) -> Option<&Hex> {
        match self {
            Op::Video { data, .. }
            | Op::VideoDts { data, .. }
            | Op::Audio { data, .. }
            | Op::EncVideo { data, .. }
            | Op::EncAudio { data, .. } => Some(data),
            _ => None,
        }
    }
    pub fn data_mut(&mut self) -> Option<&mut Hex> {
        match self {
            Op::Video { data, .. }
            | Op::VideoDts { data, .. }
            | Op::Audio { data, .. }
            | Op::EncVideo { data, .. }
            | Op::EncAudio { data, .. } => Some(data),
            _ => None,
        }
    }
}

// ---------------------------------------------------------------- sink faults

#[derive(Clone, Copy, Debug, PartialEq, Eq, Serialize, Deserialize, PartialOrd, Ord)]
pub enum ErrK {
    NotFound,
    PermissionDenied,
    ConnectionRefused,
    ConnectionReset,
    ConnectionAborted,
    NotConnected,
    AddrInUse,
    AddrNotAvailable,
    BrokenPipe,
    AlreadyExists,
    WouldBlock,
    InvalidInput,
    InvalidData,
    TimedOut,
    WriteZero,
    Unsupported,
    UnexpectedEof,
    OutOfMemory,
    Other,
    StorageFull,
    /// io::Error::from_raw_os_error(5) (EIO)
    OsEio,
}
pub const ERRK_QUICK: [ErrK; 6] = [
    ErrK::Other,
    ErrK::StorageFull,
    ErrK::BrokenPipe,
    ErrK::WouldBlock,
    ErrK::TimedOut,
    ErrK::OsEio,
];
pub const ERRK_ALL: [ErrK; 21] = [
    ErrK::NotFound,
    ErrK::PermissionDenied,
    ErrK::ConnectionRefused,
    ErrK::ConnectionReset,
    ErrK::ConnectionAborted,
    ErrK::NotConnected,
    ErrK::AddrInUse,
    ErrK::AddrNotAvailable,
    ErrK::BrokenPipe,
    ErrK::AlreadyExists,
    ErrK::WouldBlock,
    ErrK::InvalidInput,
    ErrK::InvalidData,
    ErrK::TimedOut,
    ErrK::WriteZero,
    ErrK::Unsupported,
    ErrK::UnexpectedEof,
    ErrK::OutOfMemory,
    ErrK::Other,
    ErrK::StorageFull,
    ErrK::OsEio,
];

impl ErrK {
    pub fn make(self) -> std::io::Error {
        use std::io::{Error, ErrorKind as K};
        let k = match self {
            ErrK::NotFound => K::NotFound,
            ErrK::PermissionDenied => K::PermissionDenied,
            ErrK::ConnectionRefused => K::ConnectionRefused,
            ErrK::ConnectionReset => K::ConnectionReset,
            ErrK::ConnectionAborted => K::ConnectionAborted,
            ErrK::NotConnected => K::NotConnected,
            ErrK::AddrInUse => K::AddrInUse,
            ErrK::AddrNotAvailable => K::AddrNotAvailable,
            ErrK::BrokenPipe => K::BrokenPipe,
            ErrK::AlreadyExists => K::AlreadyExists,
            ErrK::WouldBlock => K::WouldBlock,
            ErrK::InvalidInput => K::InvalidInput,
            ErrK::InvalidData => K::InvalidData,
            ErrK::TimedOut => K::TimedOut,
            ErrK::WriteZero => K::WriteZero,
            ErrK::Unsupported => K::Unsupported,
            ErrK::UnexpectedEof => K::UnexpectedEof,
            ErrK::OutOfMemory => K::OutOfMemory,
            ErrK::Other => K::Other,
            ErrK::StorageFull => K::StorageFull,
            ErrK::OsEio => return Error::from_raw_os_error(5),
        };
        Error::new(k, "simulated sink fault")
    }
}

/// What the sink does on one particular `write` call (1-based call index over
/// every invocation of `Write::write`, including `write_all`'s retries).
#[derive(Clone, Copy, Debug, PartialEq, Eq, Serialize, Deserialize)]
pub enum Fault {
    /// return this error once; later calls behave normally
    ErrOnce(ErrK),
    /// return this error now and on every later call (until healed)
    Die(ErrK),
    /// return Ok(0)
    Zero,
    /// accept exactly 1 byte (if len > 1)
    Short1,
    /// accept len/2 bytes (if len > 1)
    ShortHalf,
    /// accept len-1 bytes (if len > 1)
    ShortAllButOne,
    /// this and the next n-1 calls return ErrorKind::Interrupted
    Interrupted(u8),
}

impl Fault {
    pub fn name(&self) -> &'static str {
        match self {
            Fault::ErrOnce(_) => "err_once",
            Fault::Die(_) => "die",
            Fault::Zero => "ok_zero",
            Fault::Short1 => "short_1",
            Fault::ShortHalf => "short_half",
            Fault::ShortAllButOne => "short_all_but_one",
            Fault::Interrupted(_) => "interrupted",
        }
    }
    /// benign = cannot make a correct caller fail
    pub fn benign(&self) -> bool {
        matches!(
            self,
            Fault::Short1 | Fault::ShortHalf | Fault::ShortAllButOne | Fault::Interrupted(_)
        )
    }
}

#[derive(Clone, Debug, PartialEq, Serialize, Deserialize, Default)]
pub struct FaultPlan {
    /// (call index, fault), call index 1-based
    #[serde(default)]
    pub at_call: Vec<(u32, Fault)>,
    /// the sink accepts exactly this many bytes in total, then every write fails
    #[serde(default)]
    pub die_at_byte: Option<(u64, ErrK)>,
    /// benign pattern applied cyclically to calls not named in `at_call`:
    /// 0 full, 1 short-1, 2 short-half, 3 short-all-but-one, 4 interrupted
    #[serde(default)]
    pub pattern: Vec<u8>,
    /// the sink works again (and forgets `Die` / `die_at_byte`) from the start of this op index
    #[serde(default)]
    pub heal_at_op: Option<u32>,
}

impl FaultPlan {
    pub fn is_empty(&self) -> bool {
        self.at_call.is_empty() && self.die_at_byte.is_none() && self.pattern.iter().all(|&p| p == 0)
    }
    pub fn only_benign(&self) -> bool {
        self.die_at_byte.is_none() && self.at_call.iter().all(|(_, f)| f.benign())
    }
}

// ---------------------------------------------------------------- cases

#[derive(Clone, Debug, PartialEq, Serialize, Deserialize)]
pub struct ProgCase {
    pub cfg: ProgCfg,
    pub ops: Vec<Op>,
    #[serde(default)]
    pub faults: FaultPlan,
}

#[derive(Clone, Debug, PartialEq, Serialize, Deserialize)]
pub struct Vp9Cfg {
    pub width: u32,
    pub height: u32,
    pub profile: u8,
    pub bit_depth: u8,
    pub color_space: u8,
    pub transfer_function: u8,
    pub matrix_coefficients: u8,
    pub level: u8,
    pub full_range_flag: u8,
}

fn default_fps() -> F {
    F(30.0)
}

#[derive(Clone, Debug, PartialEq, Serialize, Deserialize)]
pub struct FragCfg {
    /// true: through MuxerBuilder::new_with_fragment; false: FragmentConfig directly
    pub via_builder: bool,
    pub codec: VCodec,
    pub width: u32,
    pub height: u32,
    pub timescale: u32,
    pub fragment_duration_ms: u32,
    /// frame rate handed to MuxerBuilder::video (builder path only)
    #[serde(default = "default_fps")]
    pub fps: F,
    pub sps: Option<Hex>,
    pub pps: Option<Hex>,
    pub vps: Option<Hex>,
    pub av1_seq: Option<Hex>,
    pub vp9: Option<Vp9Cfg>,
}

#[derive(Clone, Debug, PartialEq, Serialize, Deserialize)]
pub enum FragOp {
    Write { pts: u64, dts: u64, data: Hex, sync: bool },
    Flush,
    Ready,
    DurationMs,
    Init,
}

impl FragOp {
    pub fn kind(&self) -> &'static str {
        match self {
            FragOp::Write { .. } => "write",
            FragOp::Flush => "flush",
            FragOp::Ready => "ready",
            FragOp::DurationMs => "duration_ms",
            FragOp::Init => "init",
        }
    }
    pub fn is_query(&self) -> bool {
        matches!(self, FragOp::Ready | FragOp::DurationMs | FragOp::Init)
    }
}

#[derive(Clone, Debug, PartialEq, Serialize, Deserialize)]
pub struct FragCase {
    pub cfg: FragCfg,
    pub ops: Vec<FragOp>,
}

/// A replay file.
#[derive(Clone, Debug, Serialize, Deserialize)]
pub struct Replay {
    pub property: String,
    pub class: String,
    pub key: String,
    pub detail: String,
    pub seed: u64,
    pub run: u64,
    pub scenario: String,
    pub case: serde_json::Value,
    #[serde(default)]
    pub minimised: bool,
    #[serde(default)]
    pub original_ops: usize,
}

#[cfg(test)]
mod tests {
    use super::*;
    #[test]
    fn hex_roundtrip() {
        let mut v = vec![1u8, 2, 3];
        v.extend(std::iter::repeat(0).take(100));
        v.extend([9, 9, 9]);
        v.extend(std::iter::repeat(7).take(20));
        let s = serde_json::to_string(&Hex(v.clone())).unwrap();
        let back: Hex = serde_json::from_str(&s).unwrap();
        assert_eq!(back.0, v);
        let e: Hex = serde_json::from_str("\"\"").unwrap();
        assert!(e.0.is_empty());
    }
    #[test]
    fn f_roundtrip() {
        for x in [0.0, -0.0, 1.0 / 3.0, 1e300, f64::NAN, f64::INFINITY, f64::NEG_INFINITY, 5e-324] {
            let s = serde_json::to_string(&F(x)).unwrap();
            let b: F = serde_json::from_str(&s).unwrap();
            assert_eq!(b.0.to_bits(), x.to_bits(), "{s}");
        }
    }
}
