//! C17, thorough tier only: the part of "concurrently with other muxers" that the baton scheduler of
//! `check` cannot reach. The baton hands over only at seams (API calls, sink writes); a hand-over INSIDE a
//! library call (between two lock acquisitions, in the middle of a conversion) needs a scheduler that owns
//! every instruction. Miri is one: `-Zmiri-many-seeds` runs this program once per seed, each seed a
//! different, exactly repeatable interleaving with pre-emption at basic-block granularity
//! (`-Zmiri-preemption-rate`), and it also reports data races and undefined behaviour as such.
//!
//! The program is deterministic apart from the interleaving: scripts are derived from argv[1]; every script is
//! first executed alone on the main thread (reference), then all scripts run concurrently, one thread each,
//! started together; every thread's output and return values must equal its reference.
//! Exit status 0 = equal, 1 = mismatch (message on stdout).

use muxide::api::{AacProfile, AudioCodec, MuxerBuilder, VideoCodec};
use std::sync::{Arc, Barrier};

struct Rng(u64);
impl Rng {
    fn next(&mut self) -> u64 {
        self.0 = self.0.wrapping_add(0x9e3779b97f4a7c15);
        let mut z = self.0;
        z = (z ^ (z >> 30)).wrapping_mul(0xbf58476d1ce4e5b9);
        z = (z ^ (z >> 27)).wrapping_mul(0x94d049bb133111eb);
        z ^ (z >> 31)
    }
    fn below(&mut self, n: u64) -> u64 {
        self.next() % n
    }
}

#[derive(Clone)]
enum Op {
    Video { pts: f64, data: Vec<u8>, key: bool },
    Audio { pts: f64, data: Vec<u8> },
}

#[derive(Clone, Copy, PartialEq)]
enum VC {
    H264,
    H265,
    Av1,
    Vp9,
}

#[derive(Clone, Copy, PartialEq)]
enum AC {
    None,
    Aac,
    Opus,
}

#[derive(Clone)]
struct Script {
    vc: VC,
    ac: AC,
    fast_start: bool,
    /// title / language metadata (the udta path)
    title: Option<String>,
    /// run through the fragmented muxer instead (H.264 configuration): write, flush every `frag_every` samples
    fragmented: Option<usize>,
    /// distinct per script: every fragmented muxer has its own configuration
    frag_width: u32,
    ops: Vec<Op>,
}

fn body(rng: &mut Rng, n: usize, tag: u8) -> Vec<u8> {
    // never 0x00 / 0x01 / 0x03: cannot form or extend a start code
    // one draw per body, then a cheap pattern (every byte costs interpreter time under Miri)
    let r = rng.next() as u8;
    let mut v = vec![0x84u8 | (r & 0x7b); n];
    for (i, b) in v.iter_mut().enumerate().take(16) {
        *b = 0x84 | ((r ^ tag ^ i as u8) & 0x7b);
    }
    v
}

fn nal(out: &mut Vec<u8>, hevc: bool, typ: u8, payload: &[u8], long_code: bool) {
    if long_code {
        out.extend_from_slice(&[0, 0, 0, 1]);
    } else {
        out.extend_from_slice(&[0, 0, 1]);
    }
    if hevc {
        out.push(typ << 1);
        out.push(1);
    } else {
        out.push(0x60 | typ);
    }
    out.extend_from_slice(payload);
}

fn video_frame(rng: &mut Rng, hevc: bool, first: bool, size: usize, tag: u8) -> Vec<u8> {
    let mut d = Vec::with_capacity(size + 128);
    if first {
        if hevc {
            let p = body(rng, 12, tag);
            nal(&mut d, true, 32, &p, true);
            let p = body(rng, 24, tag);
            nal(&mut d, true, 33, &p, true);
            let p = body(rng, 8, tag);
            nal(&mut d, true, 34, &p, rng.below(2) == 0);
        } else {
            let p = body(rng, 12, tag);
            nal(&mut d, false, 7, &p, true);
            let p = body(rng, 6, tag);
            nal(&mut d, false, 8, &p, rng.below(2) == 0);
        }
    }
    let slices = 1 + rng.below(2) as usize;
    for _ in 0..slices {
        let p = body(rng, size / slices + 1, tag);
        let typ = if first { if hevc { 19 } else { 5 } } else { 1 };
        nal(&mut d, hevc, typ, &p, rng.below(2) == 0);
    }
    d
}

fn av1_frame(rng: &mut Rng, first: bool, size: usize, tag: u8) -> Vec<u8> {
    let mut d = Vec::with_capacity(size + 32);
    if first {
        // sequence header OBU (type 1, with size), the synthetic one the crate's own tests use
        d.extend_from_slice(&[0x0A, 12, 0x00, 0x00, 0x00, 0x10, 0x07, 0x80, 0x04, 0x38, 0x00, 0x00, 0x00, 0x00]);
    }
    let p = body(rng, size.max(4), tag);
    d.push(0x32); // frame OBU with size field
    let mut n = p.len() + 1;
    loop {
        let b = (n & 0x7f) as u8;
        n >>= 7;
        if n == 0 {
            d.push(b);
            break;
        }
        d.push(b | 0x80);
    }
    d.push(if first { 0x10 } else { 0x30 });
    d.extend_from_slice(&p);
    d
}

fn vp9_frame(rng: &mut Rng, first: bool, size: usize, tag: u8) -> Vec<u8> {
    let mut d = vec![0x49, 0x83, 0x42];
    if first {
        d.extend_from_slice(&[0x00, 0x80, 0x64, 0x64, 0x12]);
    } else {
        d.extend_from_slice(&[0x10, 0x80]);
    }
    d.extend(body(rng, size.max(4), tag));
    d
}

fn opus(rng: &mut Rng, n: usize, tag: u8) -> Vec<u8> {
    let mut d = vec![0x78]; // config 15, one frame
    d.extend(body(rng, n, tag));
    d
}

fn adts(rng: &mut Rng, n: usize, tag: u8, crc: bool) -> Vec<u8> {
    let hdr = if crc { 9 } else { 7 };
    let len = hdr + n;
    let mut f = vec![0u8; hdr];
    f[0] = 0xff;
    f[1] = if crc { 0xf0 } else { 0xf1 };
    f[2] = (1 << 6) | (3 << 2); // AAC LC, 48 kHz
    f[3] = (2 << 6) | ((len >> 11) as u8 & 3);
    f[4] = (len >> 3) as u8;
    f[5] = ((len as u8 & 7) << 5) | 0x1f;
    f[6] = 0xfc;
    f.extend(body(rng, n, tag));
    f
}

fn make_script(rng: &mut Rng, k: usize, big: usize, profile: u64) -> Script {
    // profile 1: every script converts Annex B (H.264 / H.265, progressive); 2: AV1 / VP9 only; 3: one fragmented
    // muxer among progressive ones; 0: drawn freely
    let vc = match profile {
        1 => [VC::H264, VC::H265][rng.below(2) as usize],
        2 => [VC::Av1, VC::Vp9][rng.below(2) as usize],
        _ => [VC::H264, VC::H265, VC::Av1, VC::Vp9][rng.below(4) as usize],
    };
    let ac = if profile == 1 { AC::Aac } else { [AC::None, AC::Aac, AC::Opus][rng.below(3) as usize] };
    let tag = (k as u8).wrapping_mul(37);
    let n = 3 + rng.below(3) as usize;
    let fragmented = match profile {
        1 | 2 => None,
        3 => if k == 0 { Some(1 + rng.below(3) as usize) } else { None },
        7 => Some(1 + rng.below(2) as usize), // swarm of fragmented muxers, each with its own configuration
        _ => if rng.below(4) == 0 { Some(1 + rng.below(3) as usize) } else { None },
    };
    let vc = if fragmented.is_some() { VC::H264 } else { vc };
    let mut ops = Vec::new();
    for i in 0..n {
        // every script has its large frames at the same positions, so that the threads are inside the same
        // library paths at the same time
        let size = if i == 1 || i == 2 { big + rng.below(64) as usize } else { 8 + rng.below(40) as usize };
        let data = match vc {
            VC::H264 => video_frame(rng, false, i == 0, size, tag),
            VC::H265 => video_frame(rng, true, i == 0, size, tag),
            VC::Av1 => av1_frame(rng, i == 0, size, tag),
            VC::Vp9 => vp9_frame(rng, i == 0, size, tag),
        };
        ops.push(Op::Video { pts: i as f64 / 30.0, data, key: i == 0 });
        if ac != AC::None && fragmented.is_none() {
            let n_a = 10 + rng.below(30) as usize;
            let data = if ac == AC::Aac { adts(rng, n_a, tag, k % 2 == 1) } else { opus(rng, n_a, tag) };
            ops.push(Op::Audio { pts: i as f64 / 30.0, data });
        }
    }
    let title = if rng.below(2) == 0 { Some(format!("clip {} {}", k, rng.below(1000))) } else { None };
    Script { vc, ac, fast_start: rng.below(2) == 0, title, fragmented, frag_width: 640 + 16 * k as u32, ops }
}

/// Runs one script; the result is every return value (as text) and the bytes produced.
fn run(s: &Script) -> (Vec<String>, Vec<u8>) {
    let mut rets = Vec::new();
    let mut out = Vec::new();
    if let Some(every) = s.fragmented {
        let mut m = muxide::fragmented::FragmentedMuxer::new(muxide::fragmented::FragmentConfig { width: s.frag_width, height: 480, ..Default::default() });
        out.extend_from_slice(&m.init_segment());
        let mut queued = 0;
        for (i, op) in s.ops.iter().enumerate() {
            if let Op::Video { data, key, .. } = op {
                let t = i as u64 * 3000;
                rets.push(format!("{:?}", m.write_video(t, t, data, *key)));
                queued += 1;
                rets.push(format!("{} {}", m.ready_to_flush(), m.current_fragment_duration_ms()));
                if queued >= every {
                    if let Some(seg) = m.flush_segment() {
                        out.extend_from_slice(&seg);
                    }
                    queued = 0;
                }
            }
        }
        if let Some(seg) = m.flush_segment() {
            out.extend_from_slice(&seg);
        }
        out.extend_from_slice(&m.init_segment());
        return (rets, out);
    }
    {
        let codec = match s.vc {
            VC::H264 => VideoCodec::H264,
            VC::H265 => VideoCodec::H265,
            VC::Av1 => VideoCodec::Av1,
            VC::Vp9 => VideoCodec::Vp9,
        };
        let mut b = MuxerBuilder::new(&mut out).video(codec, 640, 480, 30.0).with_fast_start(s.fast_start);
        match s.ac {
            AC::Aac => b = b.audio(AudioCodec::Aac(AacProfile::Lc), 48000, 2),
            AC::Opus => b = b.audio(AudioCodec::Opus, 48000, 2),
            AC::None => {}
        }
        if let Some(t) = &s.title {
            b = b.with_metadata(muxide::api::Metadata::new().with_title(t.clone()).with_creation_time(1_700_000_000).with_language("eng"));
        }
        let mut m = match b.build() {
            Ok(m) => m,
            Err(e) => return (vec![format!("build: {:?}", e)], Vec::new()),
        };
        for op in &s.ops {
            let r = match op {
                Op::Video { pts, data, key } => m.write_video(*pts, data, *key),
                Op::Audio { pts, data } => m.write_audio(*pts, data),
            };
            rets.push(format!("{:?}", r));
        }
        rets.push(format!("{:?}", m.finish_in_place_with_stats()));
    }
    (rets, out)
}

fn digest(r: &(Vec<String>, Vec<u8>)) -> u64 {
    let mut h: u64 = 0xcbf29ce484222325;
    let mut eat = |b: u8| {
        h ^= b as u64;
        h = h.wrapping_mul(0x100000001b3);
    };
    for s in &r.0 {
        for b in s.bytes() {
            eat(b);
        }
        eat(0xff);
    }
    for b in &r.1 {
        eat(*b);
    }
    h
}

/// argv: <program seed> <size of the large frames> [reference]
///   "reference": run every script alone, print one digest per script (done natively, outside Miri)
///   otherwise:   `expect=<d0>,<d1>,..` skips the solo runs and compares against those digests
fn main() {
    let args: Vec<String> = std::env::args().collect();
    let seed: u64 = args.get(1).and_then(|s| s.parse().ok()).unwrap_or(1);
    let big: usize = args.get(2).and_then(|s| s.parse().ok()).unwrap_or(17_000);
    let mode = args.get(3).cloned().unwrap_or_default();
    let mut rng = Rng(seed.wrapping_mul(0x2545F4914F6CDD1D) ^ 0x5bd1e995);
    // program seed mod 8 == 7: a swarm of twelve fragmented muxers; otherwise mod 4 selects the mix (see make_script)
    let swarm = seed % 8 == 7;
    let threads = if swarm { 12 } else { 2 + rng.below(2) as usize };
    let scripts: Vec<Script> = (0..threads).map(|k| make_script(&mut rng, k, big, if swarm { 7 } else { seed % 4 })).collect();
    if mode == "show" {
        for (k, sc) in scripts.iter().enumerate() {
            let r = run(sc);
            println!("script {}: codec {} audio {} fragmented {:?} title {:?} -> {} bytes; {:?}", k, sc.vc as u8, sc.ac as u8, sc.fragmented, sc.title, r.1.len(), r.0);
        }
        return;
    }
    if mode == "reference" {
        let d: Vec<String> = scripts.iter().map(|s| format!("{:016x}", digest(&run(s)))).collect();
        println!("REFERENCE {}", d.join(","));
        return;
    }
    let expected: Vec<u64> = match mode.strip_prefix("expect=") {
        Some(list) => list.split(',').filter_map(|x| u64::from_str_radix(x, 16).ok()).collect(),
        None => scripts.iter().map(|s| digest(&run(s))).collect(),
    };
    if expected.len() != threads {
        println!("HARNESS: {} digests for {} scripts", expected.len(), threads);
        std::process::exit(2);
    }
    let barrier = Arc::new(Barrier::new(threads));
    let handles: Vec<_> = scripts
        .iter()
        .cloned()
        .map(|s| {
            let b = barrier.clone();
            std::thread::spawn(move || {
                b.wait();
                run(&s)
            })
        })
        .collect();
    let mut bad = false;
    for (k, h) in handles.into_iter().enumerate() {
        let got = h.join().expect("thread panicked");
        if got.1.is_empty() {
            println!("HARNESS: script {} produced no file: {:?}", k, got.0);
            std::process::exit(2);
        }
        if digest(&got) != expected[k] {
            println!("MISMATCH program_seed={} script={}: return values / file under concurrency differ from the solo run ({} bytes; last return value {})", seed, k, got.1.len(), got.0.last().cloned().unwrap_or_default());
            bad = true;
        }
    }
    if bad {
        std::process::exit(1);
    }
    println!("ok program_seed={} threads={}", seed, threads);
}
