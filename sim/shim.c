/* LD_PRELOAD shim for the S-CLI world (C20, thorough tier): injects disk faults at the libc
 * boundary of the child process. Controlled by environment variables:
 *   SHIM_KIND   = eio_write | eintr_write | short_write | eio_read | eintr_read | short_read | enospc_write
 *   SHIM_AT     = n   (1-based index of the read/write call on a descriptor > 2 at which the fault fires;
 *                      short_* apply to every call from n on)
 *   SHIM_LOG    = path; a line is appended whenever a fault actually fired
 * Only descriptors > 2 are touched (stdout/stderr stay intact). */
#define _GNU_SOURCE
#include <dlfcn.h>
#include <errno.h>
#include <fcntl.h>
#include <stdlib.h>
#include <string.h>
#include <sys/syscall.h>
#include <sys/types.h>
#include <unistd.h>

static int inited, kind, at;
static long nwrite, nread;
static const char *logpath;
enum { K_NONE, K_EIO_W, K_EINTR_W, K_SHORT_W, K_EIO_R, K_EINTR_R, K_SHORT_R, K_ENOSPC_W };

static void init(void) {
    if (inited) return;
    inited = 1;
    const char *k = getenv("SHIM_KIND");
    const char *a = getenv("SHIM_AT");
    logpath = getenv("SHIM_LOG");
    at = a ? atoi(a) : 0;
    if (!k) kind = K_NONE;
    else if (!strcmp(k, "eio_write")) kind = K_EIO_W;
    else if (!strcmp(k, "eintr_write")) kind = K_EINTR_W;
    else if (!strcmp(k, "short_write")) kind = K_SHORT_W;
    else if (!strcmp(k, "eio_read")) kind = K_EIO_R;
    else if (!strcmp(k, "eintr_read")) kind = K_EINTR_R;
    else if (!strcmp(k, "short_read")) kind = K_SHORT_R;
    else if (!strcmp(k, "enospc_write")) kind = K_ENOSPC_W;
}

static void fired(const char *what) {
    if (!logpath) return;
    int fd = (int)syscall(SYS_open, logpath, O_WRONLY | O_CREAT | O_APPEND, 0644);
    if (fd >= 0) {
        syscall(SYS_write, fd, what, strlen(what));
        syscall(SYS_write, fd, "\n", 1);
        syscall(SYS_close, fd);
    }
}

ssize_t write(int fd, const void *buf, size_t count) {
    init();
    if (fd > 2 && kind != K_NONE) {
        long n = ++nwrite;
        if (kind == K_EIO_W && n == at) { fired("eio_write"); errno = EIO; return -1; }
        if (kind == K_ENOSPC_W && n >= at) { fired("enospc_write"); errno = ENOSPC; return -1; }
        if (kind == K_EINTR_W && n == at) { fired("eintr_write"); errno = EINTR; return -1; }
        if (kind == K_SHORT_W && n >= at && count > 1) { fired("short_write"); count = count / 2; }
    }
    return (ssize_t)syscall(SYS_write, fd, buf, count);
}

ssize_t read(int fd, void *buf, size_t count) {
    init();
    if (fd > 2 && kind != K_NONE) {
        long n = ++nread;
        if (kind == K_EIO_R && n == at) { fired("eio_read"); errno = EIO; return -1; }
        if (kind == K_EINTR_R && n == at) { fired("eintr_read"); errno = EINTR; return -1; }
        if (kind == K_SHORT_R && n >= at && count > 1) { fired("short_read"); count = count > 7 ? 7 : 1; }
    }
    return (ssize_t)syscall(SYS_read, fd, buf, count);
}
