#!/bin/sh
# usage (cwd /verif): sim/check.sh <id> quick|thorough
#                     sim/check.sh <id> --replay <file>
# Rebuilds the simulator (and with it the muxide library from /repo's current
# working tree), then runs the check. Exit 0 held / 1 violation / 2 harness or build error.
here=$(cd "$(dirname "$0")" && pwd)
cd "$here" || exit 2
export CARGO_NET_OFFLINE=true
if ! cargo build --release --offline >"$here/build.log" 2>&1; then
    echo "HARNESS ERROR: build failed (muxide from /repo or the simulator does not compile)" >&2
    tail -40 "$here/build.log" >&2
    exit 2
fi
case "$3" in *send-proof*) sendproof_replay=1 ;; *) sendproof_replay=0 ;; esac
if [ "$1" = "C17" ] && { [ "$2" != "--replay" ] || [ "$sendproof_replay" = 1 ]; }; then
    # type-level clause: Muxer<W>: Send/Sync for every W: Send/Sync (compiled, not run)
    if ! cargo build --release --offline --manifest-path "$here/send_proof/Cargo.toml" --target-dir "$here/target/send_proof" >"$here/send_proof.log" 2>&1; then
        mkdir -p "$here/../replays/C17"
        cp "$here/send_proof.log" "$here/../replays/C17/send-proof-compiler-output.txt"
        echo "violation class=C17/send-sync-bound: muxide compiles, but Muxer<W> is not Send/Sync for every Send/Sync sink type W (compiler output in the replay file)"
        echo "VIOLATION property=C17 replay=/verif/replays/C17/send-proof-compiler-output.txt"
        exit 1
    fi
    if [ "$sendproof_replay" = 1 ]; then
        echo "REPLAY-CLEAN property=C17 (send_proof compiles on this tree)"
        exit 0
    fi
fi
if [ "$1" = "C20" ]; then
    # the real CLI binary, rebuilt from /repo's working tree into a directory under /verif
    if ! CARGO_PROFILE_RELEASE_OVERFLOW_CHECKS=true CARGO_PROFILE_RELEASE_DEBUG_ASSERTIONS=true \
        cargo build --release --offline --manifest-path /repo/Cargo.toml --bin muxide --target-dir "$here/target/repo-bin" >"$here/cli-build.log" 2>&1; then
        echo "HARNESS ERROR: the muxide binary does not build" >&2
        tail -40 "$here/cli-build.log" >&2
        exit 2
    fi
    # the libc-level fault shim for the child process
    if [ ! -f "$here/target/shim.so" ] || [ "$here/shim.c" -nt "$here/target/shim.so" ]; then
        if ! clang -shared -fPIC -O1 -o "$here/target/shim.so" "$here/shim.c" -ldl >"$here/shim-build.log" 2>&1; then
            echo "HARNESS ERROR: sim/shim.c does not build" >&2
            cat "$here/shim-build.log" >&2
            exit 2
        fi
    fi
fi
cd "$here/.." || exit 2
if [ "$1" = "C17" ] && [ "$2" = "--replay" ] && grep -q '"kind": "miri"' "$3" 2>/dev/null; then
    # a recorded (program seed, Miri seed): interleaving inside library calls, re-executed under Miri
    exec python3 "$here/miri_stage.py" replay "$3"
fi
if [ "$1" = "C17" ] && [ "$2" = "thorough" ]; then
    # first the baton scheduler (seams), then Miri's scheduler (pre-emption inside library calls)
    "$here/target/release/check" "$@"
    code=$?
    [ "$code" -ne 0 ] && exit "$code"
    exec python3 "$here/miri_stage.py" run "${VERIF_SEED:-1}"
fi
if [ "$2" = "--replay" ]; then
    # a replayed case may kill or hang the process (that is what it recorded): map that to a verdict
    timeout 300 "$here/target/release/check" "$@"
    code=$?
    case "$code" in
        0|1|2) exit "$code" ;;
        *)
            echo "violation class=$1/process-death-or-hang: replaying $3 ended the process abnormally (status $code)"
            echo "VIOLATION property=$1 replay=$3"
            exit 1 ;;
    esac
fi
exec "$here/target/release/check" "$@"
