#!/bin/sh
# usage (cwd /verif): sim/check.sh <id> quick|thorough
#                     sim/check.sh <id> --replay <file>
# Rebuilds the simulator (and with it the muxide library from /repo's current
# working tree), then runs the check. Exit 0 held / 1 violation / 2 harness or build error.
here=$(cd "$(dirname "$0")" && pwd)
cd "$here" || exit 2
export CARGO_NET_OFFLINE=true
if ! cargo build --release --offline >"$here/build.log" 2>&1; then
    echo "HARNESS ERROR: build failed (muxide from /repo or the simulator does not compile)" >&2
    tail -40 "$here/build.log" >&2
    exit 2
fi
cd "$here/.." || exit 2
exec "$here/target/release/check" "$@"
