#!/usr/bin/env python3
"""C17, thorough tier: interleavings INSIDE library calls, decided by Miri's seeded scheduler.

  sim/miri_stage.py run <verif-seed>      explore; exit 0 all equal / 1 VIOLATION / 2 harness error
  sim/miri_stage.py replay <file>         re-execute one recorded (program seed, Miri seed) on the current tree

The baton scheduler of `check` hands over only at seams (API calls, sink writes). What happens when another
thread runs in the MIDDLE of a library call (between two lock acquisitions on shared state, during a conversion)
is reached here: sim/miri_conc runs 2..3 muxer scripts on real threads under `cargo +nightly miri`, where
`-Zmiri-many-seeds` makes every seed a different, exactly repeatable schedule with pre-emption at basic-block
granularity, and data races / undefined behaviour are reported by the interpreter itself. The reference (each
script alone) is computed natively by the same program and passed in as digests."""
import json, os, re, subprocess, sys, time

HERE = os.path.dirname(os.path.abspath(__file__))
CRATE = os.path.join(HERE, "miri_conc")
ENV = dict(os.environ, CARGO_NET_OFFLINE="true")
RATE = "0.05"

def sh(cmd, env=None, timeout=3600):
    return subprocess.run(cmd, shell=True, cwd=CRATE, env=env or ENV, capture_output=True, text=True, timeout=timeout)

def available():
    r = sh("cargo +nightly miri --version")
    return r.returncode == 0

def native_reference(prog, big):
    r = sh("cargo build --release --offline")
    if r.returncode != 0:
        print("HARNESS ERROR: sim/miri_conc does not build natively\n" + r.stderr[-2000:], file=sys.stderr)
        sys.exit(2)
    r = sh(f"./target/release/miri_conc {prog} {big} reference")
    m = re.search(r"^REFERENCE (\S+)", r.stdout, re.M)
    if r.returncode != 0 or not m:
        # the scripts are valid by construction: a solo run that fails or panics is C12's / C04's business, not ours
        print(f"HARNESS ERROR: reference run failed (exit {r.returncode}): {r.stdout[-500:]} {r.stderr[-500:]}", file=sys.stderr)
        sys.exit(2)
    return m.group(1)

def miri_one(prog, big, ref, mseed):
    """One interleaving = one Miri process (`-Zmiri-many-seeds` runs its seeds as threads of ONE interpreter process,
    which on this machine spends most of its time in the kernel: 12 min for what separate processes do in 20 s)."""
    env = dict(ENV, MIRIFLAGS=f"-Zmiri-seed={mseed} -Zmiri-preemption-rate={RATE}")
    r = sh(f"cargo +nightly miri run --offline -- {prog} {big} expect={ref}", env=env, timeout=3600)
    return mseed, r.returncode, r.stdout + "\n" + r.stderr

WARM = [False]

def miri_many(prog, big, ref, n):
    """Seeds 0..n; returns (first failing (seed, output) or None, number run)."""
    from concurrent.futures import ThreadPoolExecutor
    start = 0
    done = 0
    if not WARM[0]:
        first = miri_one(prog, big, ref, 0)  # alone first, once: builds the Miri sysroot and the crate
        WARM[0] = True
        if first[1] != 0:
            return (first[0], first[2]), 1
        start, done = 1, 1
    workers = int(os.environ.get("VERIF_WORKERS", os.cpu_count() or 4))
    bad = None
    with ThreadPoolExecutor(max_workers=workers) as ex:
        for mseed, code, out in ex.map(lambda m: miri_one(prog, big, ref, m), range(start, n)):
            done += 1
            if code != 0 and (bad is None or mseed < bad[0]):
                bad = (mseed, out)
    return bad, done

def classify(out):
    if "MISMATCH" in out:
        return "C17/intra-call-interleaving", [l for l in out.splitlines() if l.startswith("MISMATCH")][0][:400]
    m = re.search(r"error: (Undefined Behavior|.*[Dd]ata race.*|.*deadlock.*)", out)
    if m:
        return "C17/miri-" + ("data-race" if "ata race" in m.group(0) else "undefined-behaviour" if "Undefined" in m.group(0) else "deadlock"), m.group(0)[:400]
    if "thread panicked" in out or "panicked at" in out:
        return "C17/panic-under-concurrency", [l for l in out.splitlines() if "panicked" in l][0][:400]
    return None, None

def run(seed):
    if not available():
        print("miri stage: `cargo +nightly miri` is not available here; stage skipped (the baton scheduler's results stand alone)")
        patch_evidence({"miri: stage": "skipped (cargo +nightly miri not available)"})
        return 0
    t0 = time.time()
    # (program seed, size of the large frames, number of Miri seeds): one batch above the 16 KiB mark, two small ones
    # program seed mod 4 selects the mix of muxers (1: all convert Annex B + AAC with and without CRC, 2: AV1 / VP9,
    # 3: one fragmented, 0: free); mod 8 == 7: a swarm of twelve fragmented muxers with distinct configurations
    configs = [(seed * 1000 + 1, 17000, 24), (seed * 1000 + 2, 17000, 8), (seed * 1000 + 3, 17000, 8), (seed * 1000 + 5, 600, 48),
               (seed * 1000 + 6, 900, 32), (seed * 1000 + 7, 300, 24), (seed * 1000 + 4, 900, 24), (seed * 1000 + 9, 70000, 8)]
    total = 0
    for prog, big, n in configs:
        ref = native_reference(prog, big)
        bad, done = miri_many(prog, big, ref, n)
        if bad is None:
            total += done
            continue
        ms, out = bad
        cls, detail = classify(out)
        if cls is None and "unsupported operation" in out:
            # the tree does something Miri cannot interpret (foreign functions, inline assembly): no verdict from this stage
            why = re.search(r"unsupported operation: ([^\n]*)", out)
            msg = "skipped: Miri cannot interpret this tree (" + (why.group(1)[:160] if why else "unsupported operation") + ")"
            print("miri stage " + msg)
            patch_evidence({"miri: stage": msg})
            return 0
        if cls is None:
            print("HARNESS ERROR: miri run failed without a verdict:\n" + out[-3000:], file=sys.stderr)
            return 2
        d = "/verif/replays/C17"
        os.makedirs(d, exist_ok=True)
        path = f"{d}/c17-miri-p{prog}-b{big}-m{ms}.json"
        json.dump({"kind": "miri", "property": "C17", "class": cls, "detail": detail, "program_seed": prog, "big": big, "miri_seed": ms,
                   "preemption_rate": RATE, "how": "sim/check.sh C17 --replay <this file>"}, open(path, "w"), indent=1)
        print(f"violation class={cls} key=miri seed={seed} scenario=miri-interleavings run={ms}: program seed {prog}, large frames {big} B, Miri seed {ms}: {detail}")
        print(f"VIOLATION property=C17 replay={path}")
        return 1
    wall = time.time() - t0
    print(f"miri stage: {total} interleavings with pre-emption inside library calls ({len(configs)} programs of 2..3 concurrent muxers), all equal to the solo runs, no data race / UB reported, {wall:.0f}s")
    patch_evidence({"miri: interleavings explored (pre-emption inside library calls)": total, "miri: programs": len(configs), "miri: wall seconds": int(wall)})
    return 0

def patch_evidence(extra):
    p = "/verif/evidence/C17.json"
    try:
        d = json.load(open(p))
        d.setdefault("coverage", {}).setdefault("counters", {}).update(extra)
        comps = d["coverage"].setdefault("components_stubbed", [])
        note = "thread scheduler, second form (thorough): Miri's seeded scheduler with pre-emption at basic-block granularity over sim/miri_conc (real muxide code, interpreted)"
        if note not in comps:
            comps.append(note)
        json.dump(d, open(p, "w"), indent=1)
    except Exception as e:
        print("miri stage: could not annotate the evidence file:", e, file=sys.stderr)

def replay(path):
    c = json.load(open(path))
    print(f"REPLAY property=C17 scenario=miri-interleavings expecting class={c['class']}")
    if not available():
        print("HARNESS ERROR: cargo +nightly miri not available", file=sys.stderr)
        return 2
    ref = native_reference(c["program_seed"], c["big"])
    _, code, out = miri_one(c["program_seed"], c["big"], ref, c["miri_seed"])
    if code == 0:
        print("REPLAY-CLEAN property=C17 (the recorded interleaving gives the solo result on this tree)")
        return 0
    cls, detail = classify(out)
    if cls is None:
        print("HARNESS ERROR: miri run failed without a verdict:\n" + out[-3000:], file=sys.stderr)
        return 2
    print(f"  violation class={cls} :: {detail}")
    print(f"VIOLATION property=C17 replay={path}")
    return 1

if __name__ == "__main__":
    if sys.argv[1] == "run":
        sys.exit(run(int(sys.argv[2])))
    sys.exit(replay(sys.argv[2]))
