//! Type-level clause of C17: "a muxer may be moved between threads whenever its
//! sink may". This crate compiles iff, for EVERY sink type W,
//!   W: Write + Send  =>  Muxer<W>: Send      and      W: Write + Sync  =>  Muxer<W>: Sync
//! (the repository's own tests only instantiate File and Vec<u8>).
use muxide::api::{Muxer, MuxerBuilder};
use std::io::Write;

fn is_send<T: Send>() {}
fn is_sync<T: Sync>() {}

pub fn muxer_is_send_whenever_its_sink_is<W: Write + Send>() {
    is_send::<Muxer<W>>();
    is_send::<MuxerBuilder<W>>();
}
pub fn muxer_is_sync_whenever_its_sink_is<W: Write + Sync>() {
    is_sync::<Muxer<W>>();
    is_sync::<MuxerBuilder<W>>();
}
/// non-'static sinks as well
pub fn borrowed_sinks<'a>(_v: &'a mut Vec<u8>) {
    is_send::<Muxer<&'a mut Vec<u8>>>();
    is_send::<Muxer<std::io::Cursor<&'a mut Vec<u8>>>>();
    is_send::<Muxer<Box<dyn Write + Send + 'a>>>();
}
pub fn fragmented_muxer_is_send_and_sync() {
    is_send::<muxide::fragmented::FragmentedMuxer>();
    is_sync::<muxide::fragmented::FragmentedMuxer>();
}
