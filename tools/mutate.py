#!/usr/bin/env python3
"""Ad-hoc sensitivity probe: apply one textual replacement to a file in /repo, run checks, restore.
usage: tools/mutate.py <file> <old> <new> <check>[,<check>...]"""
import subprocess, sys
f, old, new, checks = sys.argv[1:5]
path = "/repo/" + f
s = open(path).read()
assert s.count(old) >= 1, "pattern not found"
open(path, "w").write(s.replace(old, new, 1))
try:
    for c in checks.split(","):
        r = subprocess.run(f"cd /verif && sim/check.sh {c} quick", shell=True, capture_output=True, text=True)
        lines = [l for l in r.stdout.splitlines() if l.startswith("violation ")]
        print(c, "exit", r.returncode, "|", (lines[0][:260] if lines else (r.stderr.strip().splitlines() or ["no violation"])[-1][:200]))
finally:
    subprocess.run(["git", "-C", "/repo", "checkout", "--", f])
