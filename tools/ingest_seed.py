#!/usr/bin/env python3
"""Confirm and ingest a seeded breakage produced by a sub-agent in /tmp/wt/<wt>.

usage: tools/ingest_seed.py <worktree-name> <seed-id> <property> [extra-check ...]

Confirms, in the scratch worktree itself:
  * the demonstration passes without the change and fails with it,
  * the full existing test suite passes with the change,
then stores /verif/seeded/<seed-id>/{patch.diff, demo.rs, notes.md, meta.json}.
"""
import json, os, shutil, subprocess, sys

wt_name, sid, prop = sys.argv[1:4]
extra = sys.argv[4:]
wt = wt_name if wt_name.startswith("/") else f"/tmp/wt/{wt_name}"

def sh(cmd, cwd=wt, timeout=3000):
    return subprocess.run(cmd, shell=True, cwd=cwd, capture_output=True, text=True, timeout=timeout)

sh("git add -N src")  # new files under src/ belong to the patch
patch = sh("git diff -- src").stdout
assert patch.strip(), "no src change in worktree"
open(f"{wt}/.seed.patch", "w").write(patch)
assert os.path.exists(f"{wt}/SEEDED_DEMO.rs"), "no SEEDED_DEMO.rs"
os.makedirs(f"{wt}/tests", exist_ok=True)
shutil.copy(f"{wt}/SEEDED_DEMO.rs", f"{wt}/tests/seeded_demo.rs")
res = {}
try:
    r = sh("git apply -R .seed.patch")
    assert r.returncode == 0, r.stderr
    r = sh("cargo test --offline --test seeded_demo 2>&1 | tail -15")
    res["demo_without_change"] = "pass" if "test result: ok" in r.stdout and "FAILED" not in r.stdout else "FAIL"
    res["demo_without_change_tail"] = r.stdout[-400:]
    r2 = sh("git apply .seed.patch")
    assert r2.returncode == 0, r2.stderr
    r = sh("cargo test --offline --test seeded_demo 2>&1 | tail -25")
    res["demo_with_change"] = "fail" if ("FAILED" in r.stdout or "error" in r.stdout) and "test result: ok" not in r.stdout.split("Running")[-1] else "PASSES?"
    res["demo_with_change_tail"] = r.stdout[-600:]
finally:
    os.remove(f"{wt}/tests/seeded_demo.rs")
r = sh("cargo test --offline 2>&1 | grep -E '^test result|FAILED|error(\\[|:)' ")
lines = r.stdout.strip().splitlines()
passed = sum(int(l.split()[3]) for l in lines if l.startswith("test result"))
failed = sum(int(l.split()[5]) for l in lines if l.startswith("test result"))
bad = [l for l in lines if not l.startswith("test result")]
res["suite_with_change"] = f"passed {passed} failed {failed}" + (f" other: {bad[:3]}" if bad else "")
ok = res["demo_without_change"] == "pass" and res["demo_with_change"] == "fail" and failed == 0 and not bad and passed >= 228
print(json.dumps(res, indent=1))
print("CONFIRMED" if ok else "NOT CONFIRMED")
if not ok:
    sys.exit(1)
d = f"/verif/seeded/{sid}"
os.makedirs(d, exist_ok=True)
open(f"{d}/patch.diff", "w").write(patch)
shutil.copy(f"{wt}/SEEDED_DEMO.rs", f"{d}/demo.rs")
notes = open(f"{wt}/SEEDED_NOTES.md").read() if os.path.exists(f"{wt}/SEEDED_NOTES.md") else ""
open(f"{d}/notes.md", "w").write(notes)
meta = {
    "id": sid,
    "property": prop,
    "checks": [prop] + extra,
    "source": f"independent sub-agent given only the text of {prop} and a scratch worktree",
    "needs": "see notes.md (manifestation condition written by the author of the change)",
    "confirmed": {
        "where": "scratch worktree of /repo under /tmp/wt (removed afterwards)",
        "demo_without_change": res["demo_without_change"],
        "demo_with_change": res["demo_with_change"],
        "existing_suite_with_change": res["suite_with_change"],
        "commands": ["git apply -R patch; cargo test --offline --test seeded_demo", "git apply patch; cargo test --offline --test seeded_demo", "cargo test --offline"],
    },
}
json.dump(meta, open(f"{d}/meta.json", "w"), indent=1)
print("stored", d)
