#!/usr/bin/env python3
"""Writes the prompts for independent "bug author" sub-agents.
usage: tools/seed_prompts.py <base-dir> <wave>      (worktrees must exist at <base-dir>/<id>)
Each agent gets only the text of one property, its worktree and a steering hint
(no information about /verif)."""
import json, sys

base, wave = sys.argv[1], sys.argv[2]
props = {}
for l in open('/verif/properties.jsonl'):
    p = json.loads(l)
    props[p['id']] = p

STEER = {
 'D': {
  'C01': 'Prefer a breakage that is specific to ONE codec path (H.265 length-prefixing, AV1/VP9 pass-through, Opus vs AAC) or to one combination of metadata + audio + layout, so that all other configurations stay correct.',
  'C02': 'Prefer a breakage in the fragmented INIT segment for one particular builder configuration (H.265 with VPS, AV1 sequence header, VP9 config, unusual parameter-set lengths) or in the user-data/metadata boxes of the progressive file.',
  'C03': 'Prefer a well-meant "snap to the nominal frame duration" or "smooth the timestamps" change on the VIDEO track that is invisible for exact 30 fps input but accumulates drift for fractional rates (29.97, 23.976) or variable frame rate over many frames. No rejected calls involved.',
  'C04': 'Prefer a breakage at the BUILDER level or in configuration handling: when build() succeeds or fails, AudioCodec::None, the alias methods, audio written to a muxer built in a particular way - depending on a particular combination or order of builder calls.',
  'C05': 'Prefer a breakage where a rejected call changes something that is only visible LATER in an error value (frame_index, prev_pts / prev_dts fields of a later error), in the returned statistics, or in a later accept/reject decision - not in the file bytes of the common case.',
  'C06': 'Prefer a breakage of the bytes_written accounting (or of the other statistics) that needs a particular configuration: metadata present, fast start on, zero frames, audio configured but unused.',
  'C08': 'Prefer a breakage in which the language, the title/creation date (udta) or another header field ends up different in (or missing from) one of the two layouts under a particular metadata combination.',
  'C09': 'On the current code the property is already known NOT to hold whenever the first audio timestamp differs from the first video timestamp (no edit list). Your change must break it in a DIFFERENT way that depends on the AUDIO CONFIGURATION (AAC profile, sample rate, channel count) - e.g. a duration derived from the configured sample rate - under a specific condition, even when both tracks start at the same time.',
  'C10': 'Prefer a breakage that is specific to one codec\'s fragment configuration path, or to the caching of the init segment, or to very many samples in one fragment.',
  'C11': 'Prefer a breakage that only shows for a FragmentConfig built directly with a timescale other than 90000 or an unusual fragment_duration_ms, or for decode times above 2^32.',
  'C12': 'Prefer a panic or hang in the FRAGMENTED muxer, in MuxerBuilder::new_with_fragment, or in the validation module, for extreme but type-correct arguments (huge counts, zero, u32::MAX / u64::MAX, NaN).',
  'C13': 'Prefer a breakage that differs between the fast-start and the standard layout, or that depends on HOW MANY bytes the sink had accepted before it failed.',
  'C15': 'Prefer a breakage in the interplay of REORDERED video (write_video_with_dts, pts != dts) with an audio track: which timestamp positions a video sample relative to audio, for particular GOP patterns.',
  'C16': 'Prefer a breakage in the sample-size, chunk-offset or box-size fields of the progressive file, or in tfdt / trun data_offset of the fragmented muxer, for values at the edge of their fields.',
  'C17': 'Prefer a breakage where the output depends on the SINK TYPE or its initial state: BufWriter vs unbuffered, a Cursor not at position 0, a Vec that already holds bytes, a sink whose write() is called with different chunking.',
  'C20': 'Prefer a breakage in the handling of the AUDIO options of mux (codec names and aliases, case-insensitivity, defaults when --audio-codec / --video-codec are omitted, sample rate / channels validation).',
 },
 'C': {
  'C01': 'Prefer a breakage of the SYNC-SAMPLE flags (stss), of the AAC/Opus payload framing (ADTS header stripping with or without CRC, trailing bytes in the buffer), or of an Annex-B edge case (3- vs 4-byte start codes, trailing zeros, empty units) that only shows for particular frames - not the placement/offsets of samples.',
  'C02': 'Prefer a breakage of the mutual CONSISTENCY of table entry counts (stts / stsz / stsc / stco / ctts / stss) or of a box size for particular histories (for example many equal durations, equal composition offsets, exactly one sample, no keyframes after the first) in the progressive file.',
  'C03': 'Prefer a breakage on the AUDIO track timing (equal audio timestamps, last-sample duration, declared media duration) or in the conversion of seconds to ticks for particular fractional values - no rejected calls involved.',
  'C04': 'Prefer a breakage concerning the 32-bit inter-sample gap limit, negative zero / sub-tick timestamps, or the per-codec first-frame configuration detection (HEVC needs VPS+SPS+PPS, AV1 a sequence header OBU, VP9 its header), showing only for particular inputs.',
  'C05': 'Prefer a breakage through state OTHER than timestamps: the stored codec configuration after a rejected first keyframe, the frame counters that appear in error values and statistics, or the muxer-level bookkeeping in api.rs.',
  'C06': 'Prefer a breakage that depends on WHICH finish entry point is used (consuming finish / finish_with_stats / flush versus finish_in_place / finish_in_place_with_stats), or on dropping a muxer without finishing.',
  'C08': 'Prefer a breakage in which the two layouts describe DIFFERENT tracks/samples/timing (not only wrong offsets) for a rarely used history: zero video frames, audio configured but unused, a single sample, reordered frames.',
  'C09': 'On the current code the property is already known NOT to hold whenever the first audio timestamp differs from the first video timestamp (no edit list). Your change must break it in a DIFFERENT way on the AUDIO side that is not Opus-specific: e.g. durations derived from sample counts or nominal frame lengths instead of timestamps, or rounding that accumulates, under a specific condition, even when both tracks start at the same time.',
  'C10': 'Prefer a breakage concerning zero-length or very large samples, the sync flag, or what happens to the sequence number / queue after a flush that returned None.',
  'C11': 'Prefer a breakage of the composition offsets (sign, reordered input), of the flags of particular samples (first sample of a segment), or of durations when consecutive samples have EQUAL decode times.',
  'C12': 'Prefer a panic (arithmetic overflow, shift overflow, slice index, unwrap) inside the AV1, VP9 or Opus parsers or the ADTS validator that needs one particular crafted byte string.',
  'C13': 'Prefer a breakage in the handling of a sink that returns Ok(0), or of an error that arrives after partial progress, or in the byte accounting when a write is retried.',
  'C15': 'Prefer a breakage in which the FAST-START and the standard layout store samples in different cross-track orders, or in which the order depends on the number of samples.',
  'C16': 'Prefer a breakage in the FRAGMENTED muxer or in a descriptor/box size (esds, dOps, avcC/hvcC/av1C/vpcC) for a value at the edge of its field.',
  'C17': 'Prefer a breakage of the EQUIVALENT API PATHS clause: set_video_track vs video, set_audio_track vs audio, set_create_time/set_language vs with_metadata, flush vs finish, in-place vs consuming finish, encode_video/encode_audio vs explicit timestamps, AudioCodec::None vs no audio - so that two paths documented as equivalent produce different files under some condition.',
  'C20': 'Prefer a breakage in the info command (box listing for particular well-formed files, termination on odd contents) or in exit codes / the JSON output of mux and validate.',
 },
}

TMPL = '''You are helping to evaluate a verification effort for the Rust crate `muxide` (a pure-Rust MP4 / ISO-BMFF muxer library plus a small CLI). Your job is to act as a realistic "bug author": make ONE source change to the crate that BREAKS the semantic property quoted below, while the crate still compiles and its ENTIRE existing test suite still passes, and then prove it with a demonstration.

Work ONLY inside this scratch git worktree of the repository: {wt}
Do not read, list or modify anything under /repo or /verif, and do not create files outside {wt} (except cargo's own caches). Nothing can be downloaded: always pass `--offline` to cargo. Do NOT use `git stash` (the stash is shared between worktrees and other people work concurrently).

## The property to break ({pid}: {title})

{statement}

Scope of the quantifier: {qtext}

## Steering for this round

{steer}

## What to produce

1. Read the relevant source under {wt}/src (start with src/api.rs, src/muxer/mp4.rs, src/fragmented.rs, src/codec/, src/bin/muxide.rs as relevant) and the tests under {wt}/tests so you know what the existing tests pin down.
2. Make a change to files under {wt}/src that breaks the property above. Requirements for the change:
   - It must look like a plausible refactoring / optimisation / "fix" mistake that a maintainer could make, not sabotage with obviously dead or weird code.
   - It must NOT be exposed by ordinary use at once. It must need something SPECIFIC to manifest: a particular multi-step sequence of calls, an unusual but legal input (sizes, timestamps, codecs, orderings, configuration combinations), a fault or error at a particular point (e.g. the writer/sink failing, or returning a short write / Interrupted at a particular call), a particular interleaving across threads or muxer instances, or two cooperating sites that each look fine alone. Prefer conditions that a handful of hand-written example tests would not stumble on.
   - The crate must still compile, and the FULL existing test suite must still pass: run `cd {wt} && cargo test --offline 2>&1 | tail -40` (takes about a minute) and check every `test result:` line says 0 failed. Do not edit, delete or ignore any existing test.
3. Write a demonstration as a standalone integration test file at {wt}/SEEDED_DEMO.rs (it will be copied to tests/seeded_demo.rs to be run). It must use only the crate's public API (and std), FAIL with your change applied and PASS on the unmodified code. Verify both: copy it to {wt}/tests/seeded_demo.rs, run `cargo test --offline --test seeded_demo` with your change (must fail), then revert your src change with `git diff -- src > my.patch && git apply -R my.patch`, run again (must pass), then `git apply my.patch && rm my.patch`. Afterwards REMOVE {wt}/tests/seeded_demo.rs again so that only SEEDED_DEMO.rs at the worktree root remains (the src change must remain applied and uncommitted).
4. Write {wt}/SEEDED_NOTES.md with: which file/function you changed and why it looks plausible; exactly what is needed for the breakage to manifest (the specific sequence / input / fault / interleaving); which clause of the property is violated and how it shows (what a reader of the output / a caller observes); the commands you ran and their outcomes.

Do not commit anything. When you are done, reply with a short summary: the changed file(s), the manifestation condition, and confirmation that (a) the full existing suite passes with the change, (b) the demo fails with the change, (c) the demo passes without it.'''

for pid, steer in STEER[wave].items():
    p = props[pid]
    open(f'{base}/prompt-{pid}.txt', 'w').write(TMPL.format(wt=f'{base}/{pid}', pid=pid, title=p['title'], statement=p['statement'], qtext=p['quantifier']['text'], steer=steer))
print("written", len(STEER[wave]), "prompts to", base)
