#!/usr/bin/env python3
"""Writes the prompts for independent "bug author" sub-agents.
usage: tools/seed_prompts.py <base-dir> <wave>      (worktrees must exist at <base-dir>/<id>)
Each agent gets only the text of one property, its worktree and a steering hint
(no information about /verif)."""
import json, sys

base, wave = sys.argv[1], sys.argv[2]
props = {}
for l in open('/verif/properties.jsonl'):
    p = json.loads(l)
    props[p['id']] = p

STEER = {
 'E': {
  'C01': 'Earlier rounds already used: large-frame write coalescing, placeholder moov sizing, stss recorded before validation, dropping short H.265 NAL units. Do something DIFFERENT - for example in the H.264 Annex B to length-prefixed conversion (emulation-prevention bytes, 3-byte vs 4-byte start codes adjacent to payload zeros), in which samples are listed as sync samples when EVERY or NO sample is a keyframe, in the Opus/AAC path with metadata and fast start combined, or in the sample-to-chunk (stsc) runs for particular sample counts.',
  'C02': 'Earlier rounds already used: a byte counter in the fragmented muxer, dropping a silent audio trak, a schedule keyed without index, the date item in udta. Do something DIFFERENT - for example the hdlr / name strings, the esds descriptor length bytes when the AudioSpecificConfig or descriptor grows past 127 bytes, dOps for particular channel counts, the moof / traf / trun sizes of a media segment for particular sample counts or flags, or the colr / pasp / btrt style optional child boxes of a sample entry.',
  'C03': 'Earlier rounds already used: check order behind the duration back-patch, ctts written only when offsets vary, last audio delta, snapping to the nominal frame duration. Do something DIFFERENT - for example run-length merging of equal stts/ctts entries going wrong for particular patterns (A A B A, a run longer than some count), the duration given to the LAST video sample, timestamps that do not start at zero, or the encode_video / encode_audio automatic clocks for particular frame rates / sample rates / packet sizes.',
  'C04': 'Earlier rounds already used: first_video_pts on the dts path, rejected encode_* advancing the clock, audio gap above u32, audio(None) after audio(...). Do something DIFFERENT - for example the ADTS header validation (sampling-frequency index, frame-length field versus buffer length, channel configuration 0), the Opus TOC / packet validation, the VP9 or AV1 first-frame configuration detection, NaN / negative / infinite timestamps, or which error VARIANT (and its fields) is reported for a given violation.',
  'C05': 'Earlier rounds already used: composition-offset check behind a back-patch (twice), last_dts.replace in the fragmented muxer, codec configuration stored before a size check. Do something DIFFERENT - for example a rejected AUDIO call (invalid ADTS, empty Opus packet, non-monotonic audio pts) that leaves a trace, a rejected write after which finish() writes something else, or a rejected call that changes Muxer-level state in src/api.rs (the automatic encode_* clocks, the first-frame flags, the statistics).',
  'C06': 'Earlier rounds already used: finalised flag set only after success, duration as max pts + last delta, consuming finish after in-place finish, an uncounted empty mdat. Do something DIFFERENT - for example the video_frames / audio_frames / duration_secs statistics for particular histories (audio longer than video, reordered frames, one frame), writes that are accepted AFTER a failed or successful finish, what flush() does to the sink, or the Drop behaviour of an unfinished muxer.',
  'C08': 'Earlier rounds already used: placeholder moov sizes, stco located by scanning for its fourcc, a lone audio frame duration, language-only metadata. Do something DIFFERENT - for example the header version (32/64-bit mvhd/mdhd) chosen differently in the two layouts, co64 versus stco decisions, sync-sample tables, composition offsets or the handler/name strings differing between layouts for particular inputs.',
  'C09': 'On the current code the property is already known NOT to hold whenever the first audio timestamp differs from the first video timestamp (no edit list). Earlier rounds already used Opus TOC durations, composition offsets for leading pictures, absorbing 1-tick residues, quantising audio to the sample clock. Your change must break it in a DIFFERENT way even when both tracks start at the same time - for example on the VIDEO side under reordering (ctts sign / version), drift that grows with the NUMBER of samples on one track only, or a timescale change for one track.',
  'C10': 'Earlier rounds already used: monotonic check against the wrong reference, payload appended before validation, an empty flush clearing last_dts, sniffing Annex B in HEVC samples. Do something DIFFERENT - for example the trun data_offset / mdat ordering when a fragment holds many samples, the sequence numbers across flushes that returned None, samples lost or duplicated when flush is called twice in a row or when ready() is polled, or zero-length samples.',
  'C11': 'Earlier rounds already used: durations vector off by one after a flush, mehd added later to the init segment, zero durations replaced, a fragment-start field set by rejected writes. Do something DIFFERENT - for example the duration of the LAST sample of each fragment, composition offsets (pts - dts) with pts < dts, tfdt for the very first fragment when the first dts is not 0, the tfhd / trex default flags, or the init segment depending on call history in another way.',
  'C12': 'Earlier rounds already used: + overflow in max_end_pts, recursion in the Annex B iterator, a shift by 32 in uvlc, division by a zero frame rate. Do something DIFFERENT - for example a slice index or unwrap in the H.264 SPS / H.265 SPS parsing helpers (exp-Golomb reading past the end, emulation prevention at the very end), in the ADTS or Opus helpers for truncated input, in the CLI-independent validation / assertions helpers, or an unbounded loop for a crafted length field.',
  'C13': 'Earlier rounds already used: InvalidData resetting finalized, vectored writes mishandling short writes, Interrupted retry restarting the buffer, a byte counter bumped after write_all. Do something DIFFERENT - for example an error from the sink flush() being swallowed or reported as success, an error during the moov (not the mdat) of the standard layout, WouldBlock / TimedOut handled like Interrupted, or the statistics / bytes_written returned by the *_with_stats entry points after a failure.',
  'C15': 'Earlier rounds already used: tie break lost in an insertion schedule, schedule time narrowed to u32, binary_search among equal ticks, scheduling at min(dts, pts). Do something DIFFERENT - for example chunk grouping (several samples per chunk) that reorders across tracks for particular counts, the audio track scheduled in its own timescale instead of the common one, or a sort that is not stable for particular lengths.',
  'C16': 'Earlier rounds already used: one header version chosen from the video duration only, an offset check on a rounded difference, codec configuration before the size check, the mdat size bound off by the header. Do something DIFFERENT - for example stsz sample sizes or sample counts narrowed, an entry_count computed in a smaller type, the esds / descriptor length encodings, the fragmented sequence_number / sample_count / data_offset fields, or bitrate / buffer-size fields.',
  'C17': 'Earlier rounds already used: vectored writes, a thread-local schedule memo, rejected encode_* advancing a clock, gather writes. Do something DIFFERENT - for example a process-wide static or OnceLock (a cache keyed too coarsely, a counter, a lazily initialised table) that makes one muxer instance influence another or makes output depend on how many muxers were created before, hashing / iteration order of a HashMap that reaches the output, or reading the wall clock / process id into the file under a particular configuration.',
  'C20': 'Earlier rounds already used: hex reader accepting a trailing nibble, option handling order of --language / --title, recursion in info, audio codec name parsing. Do something DIFFERENT - for example the frame-list / input file parsing (timestamps, blank lines, comments, CRLF line ends), what happens when the output file already exists or cannot be created, partial output left behind after a failure with exit code 0, or the validate command reporting success for a file the library would not produce.',
 },
 'D': {
  'C01': 'Prefer a breakage that is specific to ONE codec path (H.265 length-prefixing, AV1/VP9 pass-through, Opus vs AAC) or to one combination of metadata + audio + layout, so that all other configurations stay correct.',
  'C02': 'Prefer a breakage in the fragmented INIT segment for one particular builder configuration (H.265 with VPS, AV1 sequence header, VP9 config, unusual parameter-set lengths) or in the user-data/metadata boxes of the progressive file.',
  'C03': 'Prefer a well-meant "snap to the nominal frame duration" or "smooth the timestamps" change on the VIDEO track that is invisible for exact 30 fps input but accumulates drift for fractional rates (29.97, 23.976) or variable frame rate over many frames. No rejected calls involved.',
  'C04': 'Prefer a breakage at the BUILDER level or in configuration handling: when build() succeeds or fails, AudioCodec::None, the alias methods, audio written to a muxer built in a particular way - depending on a particular combination or order of builder calls.',
  'C05': 'Prefer a breakage where a rejected call changes something that is only visible LATER in an error value (frame_index, prev_pts / prev_dts fields of a later error), in the returned statistics, or in a later accept/reject decision - not in the file bytes of the common case.',
  'C06': 'Prefer a breakage of the bytes_written accounting (or of the other statistics) that needs a particular configuration: metadata present, fast start on, zero frames, audio configured but unused.',
  'C08': 'Prefer a breakage in which the language, the title/creation date (udta) or another header field ends up different in (or missing from) one of the two layouts under a particular metadata combination.',
  'C09': 'On the current code the property is already known NOT to hold whenever the first audio timestamp differs from the first video timestamp (no edit list). Your change must break it in a DIFFERENT way that depends on the AUDIO CONFIGURATION (AAC profile, sample rate, channel count) - e.g. a duration derived from the configured sample rate - under a specific condition, even when both tracks start at the same time.',
  'C10': 'Prefer a breakage that is specific to one codec\'s fragment configuration path, or to the caching of the init segment, or to very many samples in one fragment.',
  'C11': 'Prefer a breakage that only shows for a FragmentConfig built directly with a timescale other than 90000 or an unusual fragment_duration_ms, or for decode times above 2^32.',
  'C12': 'Prefer a panic or hang in the FRAGMENTED muxer, in MuxerBuilder::new_with_fragment, or in the validation module, for extreme but type-correct arguments (huge counts, zero, u32::MAX / u64::MAX, NaN).',
  'C13': 'Prefer a breakage that differs between the fast-start and the standard layout, or that depends on HOW MANY bytes the sink had accepted before it failed.',
  'C15': 'Prefer a breakage in the interplay of REORDERED video (write_video_with_dts, pts != dts) with an audio track: which timestamp positions a video sample relative to audio, for particular GOP patterns.',
  'C16': 'Prefer a breakage in the sample-size, chunk-offset or box-size fields of the progressive file, or in tfdt / trun data_offset of the fragmented muxer, for values at the edge of their fields.',
  'C17': 'Prefer a breakage where the output depends on the SINK TYPE or its initial state: BufWriter vs unbuffered, a Cursor not at position 0, a Vec that already holds bytes, a sink whose write() is called with different chunking.',
  'C20': 'Prefer a breakage in the handling of the AUDIO options of mux (codec names and aliases, case-insensitivity, defaults when --audio-codec / --video-codec are omitted, sample rate / channels validation).',
 },
 'C': {
  'C01': 'Prefer a breakage of the SYNC-SAMPLE flags (stss), of the AAC/Opus payload framing (ADTS header stripping with or without CRC, trailing bytes in the buffer), or of an Annex-B edge case (3- vs 4-byte start codes, trailing zeros, empty units) that only shows for particular frames - not the placement/offsets of samples.',
  'C02': 'Prefer a breakage of the mutual CONSISTENCY of table entry counts (stts / stsz / stsc / stco / ctts / stss) or of a box size for particular histories (for example many equal durations, equal composition offsets, exactly one sample, no keyframes after the first) in the progressive file.',
  'C03': 'Prefer a breakage on the AUDIO track timing (equal audio timestamps, last-sample duration, declared media duration) or in the conversion of seconds to ticks for particular fractional values - no rejected calls involved.',
  'C04': 'Prefer a breakage concerning the 32-bit inter-sample gap limit, negative zero / sub-tick timestamps, or the per-codec first-frame configuration detection (HEVC needs VPS+SPS+PPS, AV1 a sequence header OBU, VP9 its header), showing only for particular inputs.',
  'C05': 'Prefer a breakage through state OTHER than timestamps: the stored codec configuration after a rejected first keyframe, the frame counters that appear in error values and statistics, or the muxer-level bookkeeping in api.rs.',
  'C06': 'Prefer a breakage that depends on WHICH finish entry point is used (consuming finish / finish_with_stats / flush versus finish_in_place / finish_in_place_with_stats), or on dropping a muxer without finishing.',
  'C08': 'Prefer a breakage in which the two layouts describe DIFFERENT tracks/samples/timing (not only wrong offsets) for a rarely used history: zero video frames, audio configured but unused, a single sample, reordered frames.',
  'C09': 'On the current code the property is already known NOT to hold whenever the first audio timestamp differs from the first video timestamp (no edit list). Your change must break it in a DIFFERENT way on the AUDIO side that is not Opus-specific: e.g. durations derived from sample counts or nominal frame lengths instead of timestamps, or rounding that accumulates, under a specific condition, even when both tracks start at the same time.',
  'C10': 'Prefer a breakage concerning zero-length or very large samples, the sync flag, or what happens to the sequence number / queue after a flush that returned None.',
  'C11': 'Prefer a breakage of the composition offsets (sign, reordered input), of the flags of particular samples (first sample of a segment), or of durations when consecutive samples have EQUAL decode times.',
  'C12': 'Prefer a panic (arithmetic overflow, shift overflow, slice index, unwrap) inside the AV1, VP9 or Opus parsers or the ADTS validator that needs one particular crafted byte string.',
  'C13': 'Prefer a breakage in the handling of a sink that returns Ok(0), or of an error that arrives after partial progress, or in the byte accounting when a write is retried.',
  'C15': 'Prefer a breakage in which the FAST-START and the standard layout store samples in different cross-track orders, or in which the order depends on the number of samples.',
  'C16': 'Prefer a breakage in the FRAGMENTED muxer or in a descriptor/box size (esds, dOps, avcC/hvcC/av1C/vpcC) for a value at the edge of its field.',
  'C17': 'Prefer a breakage of the EQUIVALENT API PATHS clause: set_video_track vs video, set_audio_track vs audio, set_create_time/set_language vs with_metadata, flush vs finish, in-place vs consuming finish, encode_video/encode_audio vs explicit timestamps, AudioCodec::None vs no audio - so that two paths documented as equivalent produce different files under some condition.',
  'C20': 'Prefer a breakage in the info command (box listing for particular well-formed files, termination on odd contents) or in exit codes / the JSON output of mux and validate.',
 },
}

TMPL = '''You are helping to evaluate a verification effort for the Rust crate `muxide` (a pure-Rust MP4 / ISO-BMFF muxer library plus a small CLI). Your job is to act as a realistic "bug author": make ONE source change to the crate that BREAKS the semantic property quoted below, while the crate still compiles and its ENTIRE existing test suite still passes, and then prove it with a demonstration.

Work ONLY inside this scratch git worktree of the repository: {wt}
Do not read, list or modify anything under /repo or /verif, and do not create files outside {wt} (except cargo's own caches). Nothing can be downloaded: always pass `--offline` to cargo. Do NOT use `git stash` (the stash is shared between worktrees and other people work concurrently).

## The property to break ({pid}: {title})

{statement}

Scope of the quantifier: {qtext}

## Steering for this round

{steer}

## What to produce

1. Read the relevant source under {wt}/src (start with src/api.rs, src/muxer/mp4.rs, src/fragmented.rs, src/codec/, src/bin/muxide.rs as relevant) and the tests under {wt}/tests so you know what the existing tests pin down.
2. Make a change to files under {wt}/src that breaks the property above. Requirements for the change:
   - It must look like a plausible refactoring / optimisation / "fix" mistake that a maintainer could make, not sabotage with obviously dead or weird code.
   - It must NOT be exposed by ordinary use at once. It must need something SPECIFIC to manifest: a particular multi-step sequence of calls, an unusual but legal input (sizes, timestamps, codecs, orderings, configuration combinations), a fault or error at a particular point (e.g. the writer/sink failing, or returning a short write / Interrupted at a particular call), a particular interleaving across threads or muxer instances, or two cooperating sites that each look fine alone. Prefer conditions that a handful of hand-written example tests would not stumble on.
   - The crate must still compile, and the FULL existing test suite must still pass: run `cd {wt} && cargo test --offline 2>&1 | tail -40` (takes about a minute) and check every `test result:` line says 0 failed. Do not edit, delete or ignore any existing test.
3. Write a demonstration as a standalone integration test file at {wt}/SEEDED_DEMO.rs (it will be copied to tests/seeded_demo.rs to be run). It must use only the crate's public API (and std), FAIL with your change applied and PASS on the unmodified code. Verify both: copy it to {wt}/tests/seeded_demo.rs, run `cargo test --offline --test seeded_demo` with your change (must fail), then revert your src change with `git diff -- src > my.patch && git apply -R my.patch`, run again (must pass), then `git apply my.patch && rm my.patch`. Afterwards REMOVE {wt}/tests/seeded_demo.rs again so that only SEEDED_DEMO.rs at the worktree root remains (the src change must remain applied and uncommitted).
4. Write {wt}/SEEDED_NOTES.md with: which file/function you changed and why it looks plausible; exactly what is needed for the breakage to manifest (the specific sequence / input / fault / interleaving); which clause of the property is violated and how it shows (what a reader of the output / a caller observes); the commands you ran and their outcomes.

Do not commit anything. When you are done, reply with a short summary: the changed file(s), the manifestation condition, and confirmation that (a) the full existing suite passes with the change, (b) the demo fails with the change, (c) the demo passes without it.'''

for pid, steer in STEER[wave].items():
    p = props[pid]
    open(f'{base}/prompt-{pid}.txt', 'w').write(TMPL.format(wt=f'{base}/{pid}', pid=pid, title=p['title'], statement=p['statement'], qtext=p['quantifier']['text'], steer=steer))
print("written", len(STEER[wave]), "prompts to", base)
