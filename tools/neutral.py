#!/usr/bin/env python3
"""Negative controls: legitimate changes to muxide under which every property should still hold.
  tools/neutral.py ingest <worktree> <id>     confirm the existing suite passes there, store neutral/<id>/{patch.diff,notes.md,meta.json}
  tools/neutral.py run [id ...]               apply each stored patch to /repo's working tree, run every check (quick),
                                              record exit codes and first report lines in neutral/<id>/result.json, restore the tree
Any report is triaged by hand: a violation the author introduced, or a false alarm of the machinery (see DESIGN.md §7)."""
import json, os, subprocess, sys, glob, shutil
REPO = "/repo"
CHECKS = os.environ.get("NEUTRAL_CHECKS", "C01 C02 C03 C04 C05 C06 C08 C09 C10 C11 C12 C13 C15 C16 C17 C20").split()
def sh(cmd, cwd=None): return subprocess.run(cmd, shell=True, capture_output=True, text=True, cwd=cwd)
def clean(): return sh(f"git -C {REPO} status --porcelain").stdout.strip() == ""

def ingest(wt, nid):
    sh("git add -N src", cwd=wt)  # new files under src/ belong to the patch
    patch = sh("git diff -- src", cwd=wt).stdout
    assert patch.strip(), "no src change"
    r = sh("cargo test --offline 2>&1 | grep -E '^test result|FAILED|error(\\[|:)'", cwd=wt)
    lines = r.stdout.strip().splitlines()
    passed = sum(int(l.split()[3]) for l in lines if l.startswith("test result"))
    failed = sum(int(l.split()[5]) for l in lines if l.startswith("test result"))
    bad = [l for l in lines if not l.startswith("test result")]
    d = f"/verif/neutral/{nid}"
    os.makedirs(d, exist_ok=True)
    open(f"{d}/patch.diff", "w").write(patch)
    if os.path.exists(f"{wt}/NEUTRAL_NOTES.md"):
        shutil.copy(f"{wt}/NEUTRAL_NOTES.md", f"{d}/notes.md")
    json.dump({"id": nid, "source": "independent sub-agent asked for a legitimate change that keeps every property (tools/neutral_prompts.py)",
               "existing_suite_with_change": f"passed {passed} failed {failed}" + (f" other: {bad[:3]}" if bad else ""),
               "patch_lines": patch.count("\n")}, open(f"{d}/meta.json", "w"), indent=1)
    print(nid, "stored;", f"suite passed {passed} failed {failed}", bad[:2])

def run(ids):
    assert clean()
    for d in sorted(glob.glob("/verif/neutral/*/")):
        nid = os.path.basename(d.rstrip("/"))
        if ids and nid not in ids: continue
        p = sh(f"git -C {REPO} apply {d}patch.diff")
        if p.returncode != 0:
            print(nid, "cannot apply:", p.stderr[:200]); sh(f"git -C {REPO} checkout -- . && git -C {REPO} clean -fdq -- src tests"); continue
        row = {}
        try:
            for cid in CHECKS:
                r = sh(f"cd /verif && sim/check.sh {cid} quick")
                lines = [l for l in r.stdout.splitlines() if l.startswith("violation ")]
                row[cid] = {"exit": r.returncode, "reports": [l[:400] for l in lines[:6]]}
        finally:
            sh(f"git -C {REPO} checkout -- . && git -C {REPO} clean -fdq -- src tests")
        old = json.load(open(f"{d}result.json")) if os.path.exists(f"{d}result.json") else {}
        old.update(row)
        json.dump(old, open(f"{d}result.json", "w"), indent=1)
        print(nid, " ".join(f"{c}:{row[c]['exit']}" for c in CHECKS), flush=True)
        for c in CHECKS:
            for l in row[c]["reports"][:2]:
                print("   ", c, l[:260])
    assert clean()
    sh("cd /verif/sim && cargo build --release --offline")

def thorough(nid, checks):
    """tools/neutral.py thorough <id> <check> ...   thorough tier of the named checks on one stored patch"""
    assert clean()
    d = f"/verif/neutral/{nid}/"
    p = sh(f"git -C {REPO} apply {d}patch.diff")
    assert p.returncode == 0, p.stderr
    row = {}
    try:
        for cid in checks:
            r = sh(f"cd /verif && sim/check.sh {cid} thorough")
            lines = [l for l in r.stdout.splitlines() if l.startswith("violation ")]
            summ = [l for l in r.stdout.splitlines() if l.startswith("summary")]
            row[cid] = {"exit": r.returncode, "reports": [l[:400] for l in lines[:6]], "summary": summ[-1] if summ else ""}
            print(nid, cid, "thorough exit", r.returncode, (summ[-1] if summ else "")[:160], flush=True)
            for l in lines[:3]: print("   ", l[:300])
    finally:
        sh(f"git -C {REPO} checkout -- . && git -C {REPO} clean -fdq -- src tests")
    old = json.load(open(d + "result_thorough.json")) if os.path.exists(d + "result_thorough.json") else {}
    old.update(row)
    json.dump(old, open(d + "result_thorough.json", "w"), indent=1)
    assert clean()

if sys.argv[1] == "ingest": ingest(sys.argv[2], sys.argv[3])
elif sys.argv[1] == "thorough": thorough(sys.argv[2], sys.argv[3:])
else: run(sys.argv[2:])
