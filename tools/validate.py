#!/usr/bin/env python3
import json, glob, sys
import jsonschema
m=json.load(open('/verif/MANIFEST.json')); s=json.load(open('/root/.vp/MANIFEST.schema.json'))
jsonschema.validate(m,s); print("manifest valid")
es=json.load(open('/root/.vp/EVIDENCE.schema.json'))
for f in sorted(glob.glob('/verif/evidence/*.json')):
    jsonschema.validate(json.load(open(f)), es); print(f,"ok")
