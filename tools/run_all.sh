#!/bin/bash
# usage: tools/run_all.sh quick|thorough [ids...]   — runs the registered checks in turn on /repo's working tree, one summary line each
tier=${1:-quick}; shift
ids=${@:-$(/verif/sim/target/release/check --list 2>/dev/null | awk '{print $1}')}
rc=0
for id in $ids; do
  s=$(date +%s)
  out=$(/verif/sim/check.sh $id $tier 2>&1); c=$?
  e=$(( $(date +%s) - s ))
  echo "$id $tier exit=$c ${e}s $(echo "$out" | grep -E '^summary' | sed 's/summary: //')"
  echo "$out" | grep -E '^(VIOLATION|HARNESS|ABORT)' 
  [ $c -ne 0 ] && rc=1
done
exit $rc
