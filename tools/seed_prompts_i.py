#!/usr/bin/env python3
"""Wave I: sixteen more breakages for the properties where earlier waves found the most gaps
(C12 x4, C01 x3, C09 x3, C16 x3, C20 x3). usage: tools/seed_prompts_i.py <base-dir>"""
import json, re, sys
base = sys.argv[1]
src = open('/verif/tools/seed_prompts.py').read()
TMPL = re.search(r"TMPL = '''(.*?)'''", src, re.S).group(1)
props = {json.loads(l)['id']: json.loads(l) for l in open('/verif/properties.jsonl')}
earlier = json.load(open('/verif/work/earlier_ideas.json'))
I = {
 'C12-i1': 'A panic or arithmetic overflow in a Display / Debug implementation, a to_json / summary helper, or a statistics computation (MuxerStats, durations, bitrates) that only occurs for extreme but reachable field values.',
 'C12-i2': 'A panic, overflow or out-of-bounds index in finish / finish_in_place / flush of the PROGRESSIVE muxer that depends on the history (numbers of samples per track, equal timestamps, a single sample, only audio-after-video patterns, huge timestamps that were accepted).',
 'C12-i3': 'A hang (unbounded or quadratic-to-the-point-of-seconds loop) or a stack overflow in one of the codec parsers (AV1 OBU / LEB128, VP9 header, ADTS, Opus TOC, H.264 / H.265 NAL scanning) for a crafted but short input.',
 'C12-i4': 'A panic in the FRAGMENTED muxer or its configuration (FragmentConfig, init_segment, ready_to_flush, current_fragment_duration_ms, flush_segment) for a particular sequence of calls and configuration values, not for a byte string.',
 'C01-i1': 'Break the unchanged pass-through of AV1, VP9 or Opus frames under a particular condition (an OBU without size field, a temporal delimiter, a VP9 superframe index, an Opus packet with padding) - e.g. a "normalisation" step that rewrites the frame.',
 'C01-i2': 'Break the sync-sample flags: which samples are listed in stss for particular keyframe patterns (every frame key, keyframes through write_video_with_dts, encode_video auto-detection vs the explicit flag, key flag on a frame without IDR).',
 'C01-i3': 'Break the addressing of samples for one particular SHAPE of recording: many more audio than video samples (or vice versa), audio continuing long after the last video frame, zero-length accepted samples, exactly one sample per track.',
 'C09-i1': 'The known defect (no edit list when the tracks start at different times) stays out of bounds. Break A/V sync in the rounding of AUDIO timestamps for sample rates that do not divide 90000 (11025, 22050, 44100) or for Opus pre-skip handling - even when both tracks start together.',
 'C09-i2': 'The known defect stays out of bounds. Break A/V sync on the VIDEO side: the composition offset of the first sample, a uniform shift of all ctts entries, or the use of decode instead of presentation time for the first video sample when they differ - so that audio relative to the FIRST VIDEO PRESENTATION time is off.',
 'C09-i3': 'The known defect stays out of bounds. Break A/V sync through the DURATIONS: an audio or video sample duration that is replaced by a nominal / default value under a condition (first sample, after a gap, equal timestamps), shifting everything after it.',
 'C16-i1': 'Truncate or clip a numeric field that no earlier idea touched and that only overflows for unusual but legal input: bitrate / buffer-size fields of esds or btrt, the 16.16 width / height of tkhd, hdlr / name string lengths, the language code packing, matrix or volume fields - choose one whose exact value is implied by the input.',
 'C16-i2': 'Make a declared track or movie duration inconsistent with the sample tables for a particular history (not through 32-bit overflow): e.g. the movie duration taken from the wrong track, computed before the last sample duration is patched, or rounded inconsistently between mvhd and mdhd.',
 'C16-i3': 'In the FRAGMENTED muxer, write a wrapped / clipped value instead of the exact one in a field no earlier idea touched (mfhd sequence_number after many segments, trun sample_count, tfhd / trex defaults, mehd / mvhd duration of the init segment, data_offset for a large moof).',
 'C20-i1': 'Break the mux command for one particular combination of options that individually work (e.g. --audio-codec with --sample-rate / --channels defaults, --fps with fractional values, --width/--height order, --title with non-ASCII text, --language with 2-letter codes, --fast-start toggles), so that the file differs from what the library writes for the same settings.',
 'C20-i2': 'Break the info command for a well-formed MP4 with a particular top-level layout (a free / skip / uuid box, a 64-bit largesize box, moov before mdat, a box of exactly 8 bytes) so that the listed top-level boxes are wrong or incomplete - or make it fail to terminate on a crafted file.',
 'C20-i3': 'Break the "never reports completion on failure" clause: a failure path (finish fails, output cannot be flushed / closed, an audio input that is rejected by the library, a late parameter error) after which the CLI still prints its completion report or exits 0.',
}
for sid, steer in I.items():
    pid = sid.split('-')[0]
    p = props[pid]
    prev = '; '.join(earlier.get(pid, []))
    full = 'Earlier rounds already used, for this property: ' + prev + '. Do something different, along this line: ' + steer
    open(f'{base}/prompt-{sid}.txt', 'w').write(TMPL.format(wt=f'{base}/{sid}', pid=pid, title=p['title'], statement=p['statement'], qtext=p['quantifier']['text'], steer=full))
print("written", len(I), "prompts to", base, list(I))
