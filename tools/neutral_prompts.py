#!/usr/bin/env python3
"""Writes prompts for "negative control" sub-agents: each makes a legitimate, substantial change to the crate
under which ALL listed properties must continue to hold. The checks are then run on the change; any report is
triaged as either a real violation introduced by the author or a false alarm of the machinery.
usage: tools/neutral_prompts.py <base-dir>   (worktrees must exist at <base-dir>/<id>)"""
import json, sys
base = sys.argv[1]
props = [json.loads(l) for l in open('/verif/properties.jsonl')]
AREAS = {
 'N01': 'In src/muxer/mp4.rs, change HOW the finished file is delivered to the sink without changing its bytes: gather the ftyp / mdat header / samples / moov through an internal buffer of a few hundred KiB that is flushed correctly (including before any large sample that bypasses it), so that the number and sizes of write calls change but the byte stream, the byte counter and the error behaviour do not.',
 'N02': 'In src/muxer/mp4.rs, deliver the media data with Write::write_vectored (IoSlice batches), handling short vectored writes that stop inside a buffer, Interrupted and Ok(0) exactly like write_all would, with an exact byte counter. The byte stream must be unchanged for every sink behaviour.',
 'N03': 'In src/muxer/mp4.rs, change the chunking of the interleaved (audio+video) layout: instead of one chunk per sample, put consecutive samples of the same track that are adjacent in the media data into one chunk (correct stsc runs and stco entries for that). Storage order of the samples must stay exactly as before; only the chunk tables change.',
 'N04': 'In src/fragmented.rs, make the movie fragment more compact in the standard way: when all samples after the first share their flags, write them once as tfhd default-sample-flags and describe the first sample with trun first-sample-flags (flags 0x000004) instead of per-sample flags; do the same for a constant sample duration via tfhd default-sample-duration when all durations are equal. Every reader that follows ISO/IEC 14496-12 must resolve exactly the same per-sample values as before.',
 'N05': 'In src/muxer/mp4.rs, instead of refusing recordings whose chunk offsets do not fit 32 bits, write a co64 box (64-bit chunk offsets) for the affected tracks - and keep stco when all offsets fit. Everything else unchanged.',
 'N06': 'In src/muxer/mp4.rs, instead of refusing recordings whose media data exceeds 4 GiB, write the mdat box with a 64-bit largesize header (size field 1, then the 64-bit size) when needed, adjusting every chunk offset for the longer header, using co64 where offsets need it. Small recordings must stay byte-identical.',
 'N07': 'In src/api.rs and src/muxer/mp4.rs, refactor the timestamp handling: one helper for seconds -> 90 kHz ticks used by all write paths, the per-track bookkeeping (previous timestamps, first-frame flags, counters) moved into a small struct per track. Behaviour - acceptance, rejection, error values, bytes - must be exactly as before.',
 'N08': 'In src/muxer/mp4.rs, replace the sort in compute_interleave_schedule by a linear two-way merge of the two tracks (both are already ordered by the key) with exactly the same resulting order, including ties (video first on equal timestamps, submission order within a track, also for equal audio timestamps).',
 'N09': 'In src/bin/muxide.rs, refactor the reading of the hex input files to a streaming decoder (fixed-size pieces, digit pairs that straddle a piece boundary handled correctly, whitespace anywhere, odd digit count and non-hex characters still errors) and tidy the option handling. The CLI must accept and reject exactly what it did and write exactly the same files.',
 'N10': 'Change the wording of error messages (Display of MuxerError and friends), add a few helper methods on the error types, and reorganise src/api.rs error construction - without changing which variant is returned when, nor any field value.',
 'N11': 'In src/muxer/mp4.rs, change details of the moov that the properties do not pin: handler name strings, compatible brands order in ftyp, the order of udta relative to the trak boxes, always writing the ctts box in version 1 when it is written, tkhd flags. Sample tables, timing, configuration records and addressing must be untouched, and both layouts (fast start on/off) must change in the same way.',
 'N12': 'In src/codec/ (h264.rs, h265.rs, common.rs), merge the two Annex B -> length-prefixed converters into one shared routine with a single-pass implementation that pre-computes the output size, and make the NAL iterator non-allocating. Results must be byte-identical for every input, including empty units, 3- and 4-byte start codes, leading bytes before the first start code, trailing zeros and inputs without any start code.',
 'N13': 'In src/fragmented.rs, restructure FragmentedMuxer: keep the pending samples payloads in one contiguous Vec<u8> with (offset, len) records instead of one Vec per sample, build the moof in a single pass with an exactly pre-computed size, cache nothing across fragments. Emitted bytes and all return values must be exactly as before.',
 'N14': 'In src/muxer/mp4.rs, reduce memory use of long recordings: store per-sample metadata in compact parallel vectors (sizes as u32, timestamps as u64, flags in a bit vector) instead of a Vec of structs, and build the sample tables from them. Output bytes and all behaviour must be exactly as before, for any number of samples.',
 'N15': 'In src/codec/av1.rs, vp9.rs and opus.rs, rewrite the header parsers around a small checked bit reader (no panics on truncated or hostile input, no unbounded loops), keeping exactly the same accept/reject decisions and extracted configuration values as now for every input.',
 'N16': 'In src/api.rs, restructure MuxerBuilder / MuxerConfig: store the configuration in one struct, make the alias methods delegate, validate in build() exactly as now (same errors for the same call sequences, last call wins for repeated video()/audio() calls, AudioCodec::None meaning no audio). No behavioural change.',
}
TMPL = '''You are a maintainer of the Rust crate `muxide` (a pure-Rust MP4 / ISO-BMFF muxer library plus a small CLI). Make the following LEGITIMATE change, carefully and completely, so that the crate still compiles, its ENTIRE existing test suite still passes, and ALL the semantic properties listed below continue to hold for every input.

Work ONLY inside this scratch git worktree of the repository: {wt}
Do not read, list or modify anything under /repo or /verif, and do not create files outside {wt} (except cargo's own caches). Nothing can be downloaded: always pass `--offline` to cargo. Do NOT use `git stash`.

## The change to make

{area}

Do it properly: this is NOT an exercise in planting a bug. Think about the corner cases (empty tracks, a single sample, zero-length samples, sink errors and short writes, very large counts and sizes, both layouts, all codecs) and write unit tests of your own for the new code if useful (adding tests is fine; do not edit or delete existing tests). If an existing test pins a detail that your change legitimately alters, prefer keeping that detail unchanged.

## Properties that must continue to hold

{props}

## What to produce

1. The change, applied and UNCOMMITTED in {wt} (files under src/ only, plus new test files if you wish).
2. `cd {wt} && cargo test --offline 2>&1 | grep -E "^test result|FAILED|error"` must show 0 failed everywhere.
3. A file {wt}/NEUTRAL_NOTES.md: what you changed (files, functions), what observable details change (e.g. number of write calls, table layout) and which do not, and for each property that your change touches a short argument why it still holds. If you became aware of any input for which a property might now fail, say so explicitly.

Do not commit anything. Reply with a short summary when done.'''
ptxt = "\n\n".join(f"**{p['id']} - {p['title']}.** {p['statement']}" for p in props)
for nid, area in AREAS.items():
    open(f'{base}/prompt-{nid}.txt', 'w').write(TMPL.format(wt=f'{base}/{nid}', area=area, props=ptxt))
print("written", len(AREAS), "prompts to", base)
