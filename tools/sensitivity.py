#!/usr/bin/env python3
"""Sensitivity: re-introduce each repaired defect (reverse-apply the fix commit to /repo's
working tree), run the named checks, expect a VIOLATION, and restore the tree.
Also applies seeded changes under /verif/seeded/*/patch.diff.
usage: tools/sensitivity.py [fixes|seeded|all] [only-id]"""
import json, os, subprocess, sys, glob, time

REPO = "/repo"
def sh(cmd, **kw):
    return subprocess.run(cmd, shell=True, capture_output=True, text=True, **kw)

def clean():
    r = sh(f"git -C {REPO} status --porcelain")
    return r.stdout.strip() == ""

def run_check(cid):
    t = time.time()
    r = sh(f"cd /verif && sim/check.sh {cid} " + os.environ.get("SENS_TIER", "quick"))
    lines = [l for l in r.stdout.splitlines() if l.startswith("violation ")]
    return r.returncode, lines, time.time() - t

def fixes():
    d = json.load(open("/verif/known_findings.json"))
    by_commit = {}
    for f in d["findings"]:
        if f["status"] == "fixed":
            by_commit.setdefault(f["commit"], set()).add(f["property"])
    return by_commit

def main():
    mode = sys.argv[1] if len(sys.argv) > 1 else "all"
    only = sys.argv[2] if len(sys.argv) > 2 else None
    assert clean(), "/repo working tree must be clean"
    results = []
    if mode in ("fixes", "all"):
        for commit, props in fixes().items():
            if only and only != commit:
                continue
            diff = sh(f"git -C {REPO} diff {commit}^ {commit}").stdout
            p = subprocess.run(["git", "-C", REPO, "apply", "-R", "-"], input=diff, text=True, capture_output=True)
            if p.returncode != 0:
                results.append((commit, "-", "cannot reverse-apply: " + p.stderr.strip()[:100]))
                continue
            try:
                for cid in sorted(props):
                    code, lines, dt = run_check(cid)
                    results.append((f"revert {commit}", cid, f"exit {code} in {dt:.0f}s; " + (lines[0][:160] if lines else "no violation")))
            finally:
                sh(f"git -C {REPO} checkout -- . && git -C {REPO} clean -fdq -- src tests")
    if mode in ("seeded", "all"):
        for d in sorted(glob.glob("/verif/seeded/*/")):
            sid = os.path.basename(d.rstrip("/"))
            if only and only != sid:
                continue
            meta = json.load(open(d + "meta.json"))
            import seedlib
            okk, msg = seedlib.apply_seed(d)
            if not okk:
                results.append((sid, "-", "cannot apply: " + msg[:100]))
                continue
            try:
                for cid in meta.get("checks", [meta["property"]]):
                    code, lines, dt = run_check(cid)
                    results.append((f"seeded {sid}", cid, f"exit {code} in {dt:.0f}s; " + (lines[0][:160] if lines else "no violation")))
            finally:
                sh(f"git -C {REPO} checkout -- . && git -C {REPO} clean -fdq -- src tests")
    assert clean(), "/repo not restored!"
    for r in results:
        print(" | ".join(r))
    # rebuild on the clean tree so that later runs are not stale
    sh("cd /verif/sim && cargo build --release --offline")

main()
