#!/usr/bin/env python3
"""Writes /verif/MANIFEST.json. Single source of truth for the registered checks."""
import json, subprocess

repo_fix_commits = []  # fix commits are unguarded; hooks: none

CHECKS = {
 "C01": ("exploration", "4.C01", "conservation of accepted samples against a reference model, dereferenced through an independent ISO-BMFF reader; seeded histories, fault-free and under short-write/EINTR sink schedules"),
 "C02": ("exploration", "4.C02", "strict box-tree tiling and mandatory-hierarchy invariant on every emitted byte stream over seeded progressive and fragmented histories"),
 "C03": ("exploration", "4.C03", "refinement of stts/ctts/mdhd against a model timeline in exact integer arithmetic over seeded timestamp histories"),
 "C04": ("exploration", "4.C04", "operation-by-operation refinement of every call's accept/reject decision and error variant against a three-valued executable contract model"),
 "C05": ("exploration", "4.C05", "history equivalence: each history executed with and without its rejected calls; results, stats and bytes must be identical"),
 "C06": ("exploration", "4.C06", "exactly-once finalisation observed at the simulated sink (write calls stamped with the API op in progress) plus accounting against the model"),
 "C08": ("exploration", "4.C08", "differential execution of one history under both layouts; addressing oracle on both, equality after erasing chunk offsets"),
 "C09": ("exploration", "4.C09", "cross-track timeline invariant (audio presentation relative to first video sample) over seeded A/V histories"),
 "C10": ("exploration", "4.C10", "conservation across write/flush/query interleavings of the fragmented muxer against a queue model"),
 "C11": ("exploration", "4.C11", "ordering/continuity of the fragmented timeline across segment boundaries against a model; init segment stability"),
 "C12": ("exploration", "4.C12", "never-crashes invariant in every object state under adversarial histories and sink faults of every kind; panic hook, overflow checks, watchdog, RLIMIT_AS, worker processes"),
 "C13": ("fault_enumeration", "4.C13", "enumeration of every sink fault point (write call x fault kind, and byte offsets) for representative histories, plus seeded short-write/EINTR schedules; prefix/no-further-write/equality oracles"),
 "C15": ("exploration", "4.C15", "ordering of recorded sample offsets against a stable-merge model over adversarial submission orders"),
 "C16": ("exploration", "4.C16", "refinement with boundary-biased histories: every decoded numeric field recomputed from the model in 128-bit arithmetic, or the producing call must have failed"),
 "C17": ("exploration", "4.C17", "seeded search over thread schedules (real threads under a baton scheduler handing over at API calls and sink writes; thorough tier also Miri's seeded scheduler with pre-emption inside library calls), muxer migration, wall-clock and monotonic-clock jumps, hash-seed changes and sink types; solo run as reference"),
 "C20": ("exploration", "4.C20", "the real CLI binary as a child process in a generated file-system state with injected disk faults; in-process library run as reference"),
}

NOTES = {
 "C12": "trusts the panic hook / catch_unwind to observe every panic; aborts, stack overflows and hangs are observed as worker deaths / watchdog expiry",
 "C13": "the (history x write call x fault kind) space of the quick tier is enumerated completely; byte offsets completely for files up to 4 KiB",
 "C17": "the baton scheduler serialises at seams only; interleavings inside a library call (and data races / UB) are explored in the thorough tier by Miri over a small fixed family of programs (2..3 muxers; H.264 / H.265 / AV1 / VP9, AAC / Opus, metadata, one fragmented), 176 seeded interleavings per run over eight programs",
 "C20": "option product is ordinary seeded workload; only the environment-fault clause and the process/file boundary are simulation targets (DESIGN.md 4.C20)",
}

NA = [
 ("C07", "pure function of the first keyframe's bytes / builder arguments: no state, schedule, clock or fault can change it (DESIGN.md 5); the history-dependent sliver is inside C05"),
 ("C14", "re-framing is a pure function of one byte string; exhaustive small-scope input enumeration is not simulation (DESIGN.md 5); its effect inside files is inside C01's oracle"),
 ("C18", "title bytes, calendar conversion and language packing are pure functions of the configuration (DESIGN.md 5)"),
 ("C19", "box layouts are a pure function of the configuration (DESIGN.md 5)"),
]

def registered():
    out = subprocess.run(["/verif/sim/target/release/check", "--list"], capture_output=True, text=True)
    return out.stdout.split()

reg = sorted(registered())
checks = []
for cid in reg:
    level, ref, tech = CHECKS[cid]
    checks.append({
        "property_id": cid,
        "quick_cmd": f"sim/check.sh {cid} quick",
        "thorough_cmd": f"sim/check.sh {cid} thorough",
        "evidence_file": f"/verif/evidence/{cid}.json",
        "replay_cmd_template": f"sim/check.sh {cid} --replay {{path}}",
        "engine": "muxsim",
        "level_claimed": {
            "category": level,
            "text": ("Seeded search over simulated runs (deterministic simulation with fault injection): " + tech +
                     ". A clean batch is evidence for the explored seeds, not proof."),
            "design_ref": "DESIGN.md " + ref,
        },
        "level_note": NOTES.get(cid, "trusted base: the independent ISO-BMFF reader (sim/src/reader.rs) and the reference model (sim/src/model.rs), both unit-tested; the library under test is the real code from /repo built with overflow-checks and debug-assertions"),
        "technique": "deterministic simulation with fault injection: " + tech,
    })

unclaimed = [c for c in CHECKS if c not in reg]
na = [{"property_id": p, "reason": r} for p, r in NA]
for c in unclaimed:
    na.append({"property_id": c, "reason": "check not built yet in this round (planned in DESIGN.md); not claimed until it runs"})

m = {
    "version": 1,
    "setup_cmd": "cd sim && CARGO_NET_OFFLINE=true cargo build --release --offline && CARGO_NET_OFFLINE=true cargo build --release --offline --manifest-path send_proof/Cargo.toml --target-dir target/send_proof && CARGO_NET_OFFLINE=true CARGO_PROFILE_RELEASE_OVERFLOW_CHECKS=true CARGO_PROFILE_RELEASE_DEBUG_ASSERTIONS=true cargo build --release --offline --manifest-path /repo/Cargo.toml --bin muxide --target-dir target/repo-bin",
    "hooks": {
        "guard": "muxide_verif",
        "enable": "no hooks in /repo are needed: every seam is reachable from outside (generic sink, public API, real threads, libc symbol override inside the harness binary, child process); the guard name is reserved and unused",
        "baseline_off_cmd": "cd /repo && cargo test --workspace --no-fail-fast --offline",
        "source_commits": [],
        "add_only": True,
    },
    "engines": [{
        "name": "muxsim",
        "path": "/verif/sim",
        "serves_properties": reg,
        "kind_free_text": "Rust crate: seeded deterministic simulator (SplitMix64 from VERIF_SEED) over the sink, the call history, thread schedules, wall clock and entropy seams and the CLI process boundary; worker processes, watchdog, replay files, delta-debugging minimiser",
    }],
    "checks": checks,
    "notes": "Exit codes: 0 held (KNOWN-FINDING lines possible), 1 VIOLATION, 2 harness/build error. Genuine defects repaired in /repo as 'fix:' commits are listed in known_findings.json with status fixed; open findings there carry a replay under findings/.",
    "not_applicable": na,
}
json.dump(m, open("/verif/MANIFEST.json", "w"), indent=1)
print("checks:", reg, "na:", [x["property_id"] for x in na])
