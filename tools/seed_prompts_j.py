#!/usr/bin/env python3
"""Wave J: one more breakage for each property that had seven rounds so far, plus four interleaving-inside-a-call
breakages for C17. usage: tools/seed_prompts_j.py <base-dir>"""
import json, re, sys
base = sys.argv[1]
src = open('/verif/tools/seed_prompts.py').read()
TMPL = re.search(r"TMPL = '''(.*?)'''", src, re.S).group(1)
props = {json.loads(l)['id']: json.loads(l) for l in open('/verif/properties.jsonl')}
earlier = json.load(open('/verif/work/earlier_ideas.json'))
FREE = 'Free choice, with one rule: do something DIFFERENT from all of these, in code none of them touched, and make it need something specific (a particular history, input, fault or interleaving) to show.'
RACE = 'This round wants a breakage that needs an interleaving of two muxers on DIFFERENT THREADS inside a single library call: shared state (a static / global behind a Mutex, RwLock or atomics; a lock released and re-acquired between two steps; a check-then-act on an atomic; a double-checked initialisation) that is correct when muxers alternate only between API calls but wrong when another thread runs in the middle of one call. Put it in: '
J = {
 'C02-j': FREE, 'C03-j': FREE, 'C04-j': FREE, 'C05-j': FREE, 'C06-j': FREE, 'C08-j': FREE, 'C10-j': FREE, 'C11-j': FREE, 'C15-j': FREE,
 'C12-j': FREE, 'C16-j': FREE, 'C01-j': FREE,
 'C17-j1': RACE + 'the AV1 / VP9 / Opus paths or the metadata (udta) building of the progressive muxer.',
 'C17-j2': RACE + 'the finalisation of the progressive muxer (building the sample tables / the moov, computing chunk offsets).',
 'C17-j3': RACE + 'the FRAGMENTED muxer (init segment cache, moof building, sequence numbers).',
 'C17-j4': RACE + 'the ADTS / AAC audio path or the H.264 / H.265 parameter-set extraction on the first keyframe.',
}
for sid, steer in J.items():
    pid = sid.split('-')[0]
    p = props[pid]
    prev = '; '.join(earlier.get(pid, []))
    full = 'Earlier rounds already used, for this property: ' + prev + '. ' + steer
    open(f'{base}/prompt-{sid}.txt', 'w').write(TMPL.format(wt=f'{base}/{sid}', pid=pid, title=p['title'], statement=p['statement'], qtext=p['quantifier']['text'], steer=full))
print("written", len(J), "prompts to", base)
