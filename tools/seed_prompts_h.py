#!/usr/bin/env python3
"""Wave H: eight more breakages each for the two properties closest to this technique - C17 (schedules, instances,
sink types) and C13 (sink faults). usage: tools/seed_prompts_h.py <base-dir>  (worktrees at <base-dir>/<seed-id>)"""
import json, re, sys
base = sys.argv[1]
src = open('/verif/tools/seed_prompts.py').read()
TMPL = re.search(r"TMPL = '''(.*?)'''", src, re.S).group(1)
props = {json.loads(l)['id']: json.loads(l) for l in open('/verif/properties.jsonl')}
earlier = json.load(open('/verif/work/earlier_ideas.json'))
H = {
 'C17-h1': 'Use a process-wide scratch buffer (a static Mutex<Vec<u8>> or similar) in one of the per-frame conversion paths, locked for each step separately, so that the result is only wrong when two muxers interleave their calls in a particular way (on one thread or on several).',
 'C17-h2': 'Introduce a process-wide counter (AtomicU64 / static) - e.g. for unique IDs, statistics or debugging - whose value reaches the file or a return value only under a rarely used configuration.',
 'C17-h3': 'Introduce a thread_local! cache of something expensive to compute (a box template, a table, a parsed header) whose key omits one of the inputs it depends on, so that a second muxer with a slightly different configuration on the same thread gets the first one\'s result.',
 'C17-h4': 'Introduce a OnceLock / lazy static initialised from the FIRST muxer that needs it (for example a default value derived from that muxer\'s configuration or first frame), used afterwards by every muxer in the process.',
 'C17-h5': 'Make one of the "equivalent API paths" of the property diverge under a specific condition: flush vs finish, finish_in_place vs finish, *_with_stats vs plain, encode_* vs explicit timestamps, builder aliases - through state that one path updates and the other does not.',
 'C17-h6': 'Make the output depend on WHEN it is produced: read the system clock (or a monotonic clock, or elapsed time between calls) in a path other than Metadata::with_current_time - for example a default creation time, a modification time in mvhd/tkhd/mdhd, or a timeout-like shortcut - under a particular configuration.',
 'C17-h7': 'Make the output depend on the order of iteration over a std HashMap / HashSet (RandomState) that you introduce for bookkeeping (e.g. per-track maps, de-duplication of parameter sets, metadata items), so that two runs of the same call sequence can differ.',
 'C17-h8': 'Make the muxer behave differently when it is MOVED to another thread between calls: capture something thread-specific at construction or at the first write (thread id, a thread_local handle, a thread-local allocator arena) and use it later.',
 'C13-h1': 'Break the handling of a sink error that occurs while the MOOV is being written (after the media data in the standard layout / before it in fast start), leaving other failure points correct.',
 'C13-h2': 'Break the "accepted bytes are a prefix of the fault-free file" clause through a write that is issued in a different ORDER or with different content once an earlier write was short (not failed).',
 'C13-h3': 'Break the "finish reports an error iff a write ultimately failed" clause for one particular io::ErrorKind or for errors whose raw_os_error is set, through an error-mapping / classification helper.',
 'C13-h4': 'Break the "after a failure no later call writes anything further" clause for the CONSUMING finish variants or for flush(), e.g. through a Drop implementation or a cleanup path that writes a trailer.',
 'C13-h5': 'Break the byte accounting (bytes_written in the returned statistics) when ErrorKind::Interrupted arrives between two partial writes of the same buffer - leaving the delivered bytes correct.',
 'C13-h6': 'Introduce a bounded retry (give up after N attempts) or a minimum-progress rule for short writes, so that a sink which legitimately accepts very few bytes per call (1 byte, many calls) makes finish fail or lose data although no write failed.',
 'C13-h7': 'Break the handling of Ok(0) from the sink (which must be reported as a failure, not retried forever and not ignored) under a particular condition, e.g. only for empty buffers vs non-empty ones, or only after at least one successful write.',
 'C13-h8': 'Make finish pre-validate or probe the sink (an empty write, a flush, a tiny test write) in a way that changes the delivered bytes or hides / invents a failure for particular sink behaviours.',
}
for sid, steer in H.items():
    pid = sid.split('-')[0]
    p = props[pid]
    prev = '; '.join(earlier.get(pid, []))
    full = 'Earlier rounds already used, for this property: ' + prev + '. Do something different, along this line: ' + steer
    open(f'{base}/prompt-{sid}.txt', 'w').write(TMPL.format(wt=f'{base}/{sid}', pid=pid, title=p['title'], statement=p['statement'], qtext=p['quantifier']['text'], steer=full))
print("written", len(H), "prompts to", base)
