#!/usr/bin/env python3
"""Print a replay file compactly."""
import json, sys
r = json.load(open(sys.argv[1]))
print("class:", r["class"], "| key:", r["key"])
print("detail:", r["detail"])
print("seed", r["seed"], "run", r["run"], "scenario", r["scenario"], "minimised", r.get("minimised"), "orig ops", r.get("original_ops"))
c = r["case"]
kind = list(c.keys())[0]
c = c[kind]
if "cfg" in c:
    print("cfg:", json.dumps(c["cfg"]))
if c.get("faults"):
    print("faults:", json.dumps(c["faults"]))
for i, op in enumerate(c.get("ops", [])):
    if isinstance(op, dict):
        k = list(op.keys())[0]
        v = op[k]
        if isinstance(v, dict) and "data" in v:
            d = v["data"]
            v = dict(v)
            v["data"] = (d[:60] + "..." if len(d) > 60 else d) + f" [{len(d)//2}B]"
        print(f"  {i}: {k} {json.dumps(v)}")
    else:
        print(f"  {i}: {op}")
