#!/usr/bin/env python3
"""Cross matrix: every seeded change (and every reverted fix) against EVERY check.
Writes /verif/seeded/MATRIX.json and prints a table. Takes ~2 h. /repo must be clean and idle."""
import json, os, subprocess, sys, glob, time
REPO="/repo"
CHECKS="C01 C02 C03 C04 C05 C06 C08 C09 C10 C11 C12 C13 C15 C16 C17 C20".split()
def sh(cmd): return subprocess.run(cmd, shell=True, capture_output=True, text=True)
def clean(): return sh(f"git -C {REPO} status --porcelain").stdout.strip()==""
assert clean()
import os.path
out=json.load(open("/verif/seeded/MATRIX.json")) if os.path.exists("/verif/seeded/MATRIX.json") and sys.argv[1:] else {}
items=[]
for d in sorted(glob.glob("/verif/seeded/*/")):
    sid=os.path.basename(d.rstrip("/"))
    items.append((f"seeded:{sid}", ("seed", d)))
kf=json.load(open("/verif/known_findings.json"))
commits=[]
for f in kf["findings"]:
    if f["status"]=="fixed" and f["commit"] and "+" not in f["commit"] and f["commit"] not in commits:
        commits.append(f["commit"])
for c in commits:
    items.append((f"revert:{c}", f"git -C {REPO} diff {c}^ {c} | git -C {REPO} apply -R -"))
only=sys.argv[1:] 
for name,cmd in items:
    if only and not any(o in name for o in only): continue
    if isinstance(cmd, tuple):
        import seedlib
        okk, msg = seedlib.apply_seed(cmd[1])
        if not okk:
            out[name]={"error":msg}; sh(f"git -C {REPO} checkout -- . && git -C {REPO} clean -fdq -- src tests"); continue
    else:
        r=sh(cmd)
        if r.returncode!=0:
            out[name]={"error":r.stderr[:200]}; sh(f"git -C {REPO} checkout -- . && git -C {REPO} clean -fdq -- src tests"); continue
    row={}
    try:
        for cid in CHECKS:
            r=sh(f"cd /verif && sim/check.sh {cid} quick")
            lines=[l for l in r.stdout.splitlines() if l.startswith("violation ")]
            row[cid]={"exit":r.returncode,"first":(lines[0][:200] if lines else "")}
    finally:
        sh(f"git -C {REPO} checkout -- . && git -C {REPO} clean -fdq -- src tests")
    out[name]=row
    json.dump(out,open("/verif/seeded/MATRIX.json","w"),indent=1)
    print(name, " ".join(f"{c}:{row[c]['exit']}" for c in CHECKS), flush=True)
assert clean()
sh("cd /verif/sim && cargo build --release --offline")
