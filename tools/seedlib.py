"""Apply / remove a seeded change on /repo's working tree."""
import json, subprocess
REPO = "/repo"
def sh(cmd):
    return subprocess.run(cmd, shell=True, capture_output=True, text=True)
def clean():
    return sh(f"git -C {REPO} status --porcelain").stdout.strip() == ""
def apply_seed(d):
    """d: directory of the seed (with trailing slash). Returns (ok, message)."""
    meta = json.load(open(d + "meta.json"))
    for c in meta.get("requires_revert", []):
        r = sh(f"git -C {REPO} diff {c}^ {c} | git -C {REPO} apply -R -")
        if r.returncode != 0:
            return False, "cannot revert " + c + ": " + r.stderr[:200]
    r = sh(f"git -C {REPO} apply {d}patch.diff")
    if r.returncode != 0:
        restore()
        return False, r.stderr[:200]
    return True, ""
def restore():
    sh(f"git -C {REPO} checkout -- . && git -C {REPO} clean -fdq -- src tests")
