#!/usr/bin/env python3
"""Replay round trip for every case type: apply a seeded change, run its check, take the reported
replay file, replay it (must reproduce: exit 1), restore the tree, replay again (must be clean: exit 0).
usage: tools/replay_check.py [seed-id ...]   (default: one seed per case type)"""
import json, re, subprocess, sys

REPO = "/repo"
DEFAULT = ["C01-a", "C10-a", "C13-b", "C17-b", "C17-c", "C20-b", "C12-b", "C16-b"]

def sh(cmd):
    return subprocess.run(cmd, shell=True, capture_output=True, text=True)

def clean():
    return sh(f"git -C {REPO} status --porcelain").stdout.strip() == ""

assert clean()
ok = True
for sid in (sys.argv[1:] or DEFAULT):
    d = f"/verif/seeded/{sid}/"
    prop = json.load(open(d + "meta.json"))["property"]
    import seedlib
    assert seedlib.apply_seed(d)[0]
    try:
        r = sh(f"cd /verif && sim/check.sh {prop} quick")
        m = re.search(r"^VIOLATION property=\S+ replay=(\S+)", r.stdout, re.M)
        if not m:
            print(sid, "no violation reported"); ok = False; continue
        path = m.group(1)
        r1 = sh(f"cd /verif && sim/check.sh {prop} --replay {path}")
    finally:
        sh(f"git -C {REPO} checkout -- . && git -C {REPO} clean -fdq -- src tests")
    r2 = sh(f"cd /verif && sim/check.sh {prop} --replay {path}")
    good = r1.returncode == 1 and r2.returncode == 0
    ok &= good
    print(f"{sid}: replay {path.split('/')[-1]} with change -> exit {r1.returncode}; on the clean tree -> exit {r2.returncode} {'OK' if good else 'PROBLEM'}")
    if not good:
        print(r1.stdout[-400:], r2.stdout[-400:])
assert clean()
sys.exit(0 if ok else 1)
