#!/usr/bin/env python3
"""Maintains /verif/known_findings.json (committed; never written by checks at run time)."""
import json, sys
P='/verif/known_findings.json'
try:
    d=json.load(open(P))
except FileNotFoundError:
    d={"findings":[]}
def add(property, cls, key, status, what, commit=None, replay=None):
    for f in d["findings"]:
        if f["property"]==property and f["class"]==cls and f["key"]==key:
            f.update(status=status, what=what, commit=commit, replay=replay)
            break
    else:
        d["findings"].append(dict(property=property, **{"class":cls}, key=key, status=status, commit=commit, what=what, replay=replay))
    for f in d["findings"]:
        if f["status"]=="fixed":
            f["line"]=f"fixed: property={f['property']} {f['commit']} {f['what']}"
        else:
            f["line"]=f"KNOWN-FINDING: property={f['property']} {f['what']}"
if __name__=="__main__":
    a=sys.argv[1:]
    add(a[0],a[1],a[2],a[3],a[4],a[5] if len(a)>5 and a[5]!="-" else None,a[6] if len(a)>6 else None)
    json.dump(d,open(P,'w'),indent=1)
